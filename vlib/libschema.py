"""The generated schema used by the library-level explorers (C12..C16): every dimension pair, every <data>
length/element type, a set of every width with a choice at every index, arrays, and a type of every primitive in
the four required/optional x explicit/implicit variants.  Emitted once per byte order."""

UINTS = [("u8", "uint8"), ("u16", "uint16"), ("u32", "uint32"), ("u64", "uint64")]
ELEMS = [("char", "char"), ("u8", "uint8"), ("i8", "int8")]
PRIMS = ["char", "int8", "uint8", "int16", "uint16", "int32", "uint32", "int64", "uint64", "float", "double"]

# explicit min/max/null used for the *_x types (C16/C18): representable, distinct from the defaults
EXPLICIT = {
    "char": ("48", "57", "63"),            # '0'..'9', '?'
    "int8": ("-100", "100", "-7"),
    "uint8": ("1", "200", "0"),
    "int16": ("-30000", "30000", "5"),
    "uint16": ("2", "60000", "1"),
    "int32": ("-2000000000", "2000000000", "-9"),
    "uint32": ("3", "4000000000", "7"),
    "int64": ("-9000000000000000000", "9000000000000000000", "11"),
    "uint64": ("4", "18000000000000000000", "13"),
    "float": ("-1.5", "2.5", "-3.5"),
    "double": ("-1.25", "2.25", "-3.25"),
}


def lib_schema(name, byte_order):
    o = []
    a = o.append
    a('<?xml version="1.0" encoding="UTF-8"?>')
    a('<sbe:messageSchema xmlns:sbe="http://fixprotocol.io/2016/sbe" package="%s" id="7" version="3" '
      'byteOrder="%s">' % (name, byte_order))
    a('<types>')
    a('<composite name="messageHeader"><type name="blockLength" primitiveType="uint16"/>'
      '<type name="templateId" primitiveType="uint16"/><type name="schemaId" primitiveType="uint16"/>'
      '<type name="version" primitiveType="uint16"/></composite>')
    for nn, nt in UINTS:
        for bn, bt in UINTS:
            a('<composite name="gse_%s_%s"><type name="blockLength" primitiveType="%s"/>'
              '<type name="numInGroup" primitiveType="%s"/></composite>' % (nn, bn, bt, nt))
    for ln, lt in UINTS:
        for vn, vt in ELEMS:
            a('<composite name="vd_%s_%s"><type name="length" primitiveType="%s"/>'
              '<type name="varData" primitiveType="%s" length="0"/></composite>' % (ln, vn, lt, vt))
    for w, (un, ut) in zip((8, 16, 32, 64), UINTS):
        a('<set name="s%d" encodingType="%s">' % (w, ut))
        for i in range(w):
            a('<choice name="c%d">%d</choice>' % (i, i))
        a('</set>')
    for n in (0, 2, 3, 4):
        a('<type name="arr%d" primitiveType="char" length="%d"/>' % (n, n))
        a('<type name="uarr%d" primitiveType="uint8" length="%d"/>' % (n, n))
    for p in PRIMS:
        mn, mx, nl = EXPLICIT[p]
        a('<type name="%s_req" primitiveType="%s"/>' % (p, p))
        a('<type name="%s_opt" primitiveType="%s" presence="optional"/>' % (p, p))
        a('<type name="%s_req_x" primitiveType="%s" minValue="%s" maxValue="%s"/>' % (p, p, mn, mx))
        a('<type name="%s_opt_x" primitiveType="%s" presence="optional" minValue="%s" maxValue="%s" '
          'nullValue="%s"/>' % (p, p, mn, mx, nl))
    a('</types>')
    mid = 1
    a('<sbe:message name="m_data" id="%d">' % mid)
    fid = 1
    for ln, lt in UINTS:
        for vn, vt in ELEMS:
            a('<data name="d_%s_%s" id="%d" type="vd_%s_%s"/>' % (ln, vn, fid, ln, vn))
            fid += 1
    a('</sbe:message>')
    for nn, nt in UINTS:
        for bn, bt in UINTS:
            mid += 1
            a('<sbe:message name="m_%s_%s" id="%d">' % (nn, bn, mid))
            a('<group name="f" id="1" dimensionType="gse_%s_%s"><field name="x" id="2" type="uint8"/></group>'
              % (nn, bn))
            a('<group name="n" id="3" dimensionType="gse_%s_%s"><field name="x" id="4" type="uint8"/>'
              '<group name="h" id="5" dimensionType="gse_u8_u8"><field name="y" id="6" type="uint8"/></group>'
              '</group>' % (nn, bn))
            a('</sbe:message>')
    mid += 1
    a('<sbe:message name="m_sets" id="%d">' % mid)
    for i, w in enumerate((8, 16, 32, 64)):
        a('<field name="f%d" id="%d" type="s%d"/>' % (w, i + 1, w))
    a('</sbe:message>')
    mid += 1
    a('<sbe:message name="m_arr" id="%d">' % mid)
    fid = 1
    for n in (0, 2, 3, 4):
        a('<field name="a%d" id="%d" type="arr%d"/>' % (n, fid, n))
        fid += 1
        a('<field name="u%d" id="%d" type="uarr%d"/>' % (n, fid, n))
        fid += 1
    a('</sbe:message>')
    mid += 1
    a('<sbe:message name="m_opt" id="%d">' % mid)
    fid = 1
    for p in PRIMS:
        for suf in ("req", "opt", "req_x", "opt_x"):
            a('<field name="%s_%s" id="%d" type="%s_%s"/>' % (p, suf, fid, p, suf))
            fid += 1
    a('</sbe:message>')
    a('</sbe:messageSchema>')
    return "\n".join(o) + "\n"


class Rejected(RuntimeError):
    """sbeppc rejected the library schema (a schema that uses only what C12..C16 quantify over: every dimension / length type,
    a choice at every bit index of every set width, every primitive as required / optional type)"""


def generate(outdir):
    """write lib_le.xml / lib_be.xml, run sbeppc on them -> include dir; raises on rejection"""
    import os
    from . import repo
    os.makedirs(outdir, exist_ok=True)
    inc = os.path.join(outdir, "gen")
    os.makedirs(inc, exist_ok=True)
    for name, bo in (("lib_le", "littleEndian"), ("lib_be", "bigEndian")):
        x = os.path.join(outdir, name + ".xml")
        with open(x, "w") as fh:
            fh.write(lib_schema(name, bo))
        rc, out = repo.run_sbeppc(x, inc)
        if rc != 0:
            raise Rejected("sbeppc rejected the library schema %s: rc=%s %s" % (name, rc, out[-2000:]))
    with open(os.path.join(inc, "lib_expect.hpp"), "w") as fh:
        fh.write("// generated from vlib/libschema.py EXPLICIT: what the *_x types state in the XML\n#pragma once\n")
        for p, (mn, mx, nl) in EXPLICIT.items():
            suf = {"uint64": "ull", "int64": "ll", "uint32": "u", "float": "f"}.get(p, "")
            for k, v in (("MIN", mn), ("MAX", mx), ("NULL", nl)):
                fh.write("#define EXP_%s_%s (%s%s)\n" % (p, k, v, suf))
    return inc
