"""C05 -- all size computations agree with the encoded size."""
from .. import cxx, libcheck, pipeline
from ..enum import shapes
from ..evidence import Report
from . import _cat
from ._lib import lib_run


def run(tier, replay=None):
    rep = Report("C05", tier, "exploration")
    cells = cxx.QUICK_CELLS if tier == "quick" else cxx.FOUR_CELLS
    cap = 12 if tier == "quick" else 40
    schemas = []
    for bo in ("littleEndian", "bigEndian"):
        schemas += shapes.catalogue(tier, bo)
    B = {"consistency": "catalogue families A and B, both byte orders, ladder <= %d size vectors per message: size_bytes of message / every group / entry / data / composite / array (random access), cursor position after every member and cursor-based size after a full traversal, trait-level size_bytes(counts..., total_data) of the message and of every group instance; all against the length of the reference image" % cap,
                       "large_values": "all 16 (numInGroup, blockLength) type pairs and 4 length types, header values {0,1,2,3,max/2,max/2+1,max-1,max} in a header-only guarded buffer; runtime size_bytes and trait formulas; cases whose size does not fit size_t excluded",
                       "cells": [cxx.cell_name(c) for c in cells]}
    rep.set("bounds", B)
    # (i) run-time sizes, random access and cursor
    builts = pipeline.prepare("cat-" + tier, schemas, cells)
    total = pipeline.run(builts, cells, "vlib.checks._cat", "plan_dump", {"cap": cap, "flags": "cs", "modes": ("ra", "cur"), "seeds": (0x10,)},
                         deadline_s=700 if tier == "quick" else 3000)
    _cat.report_pipeline(rep, builts, total, "size")
    # (ii) trait-level formulas
    tb = pipeline.prepare("c05t-" + tier, schemas, cells, srcgen=("vlib.gen.sizex", "driver_source"))
    tt = pipeline.run(tb, cells, "vlib.checks._cat", "plan_traitsize", {"cap": cap})
    _cat.report_pipeline(rep, tb, tt, "traitsize")
    # (iii) large values
    vs = []
    for cell in cells:
        for schema, big in (("lib_le", 0), ("lib_be", 1)):
            vs.append(libcheck.Variant("%s-%s" % (cxx.cell_name(cell), schema), cell,
                                       ["SBEPP_ENABLE_ASSERTS_WITH_HANDLER", "SCHEMA=" + schema, "BIG=%d" % big], opt="-O1"))
    lib_run("C05", tier, "c05", "c05_sizes.cpp", vs, {}, 1, [], [], replay=replay, level="exploration", rep=rep, finish=False)
    rep.set("bounds", B)
    large = rep.cov.get("evaluations", 0)
    rep.set("large_value_evaluations", large)
    rep.set("size_observations", total.counters.get("sizes", 0) * len(cells))
    rep.set("trait_formula_evaluations", tt.cases)
    rep.set("evaluations", total.cases + tt.cases + large)
    rep.set("distinct_nontrivial", len(total.distinct) + rep.cov.get("states", 0))
    rep.set("rule", "distinct = distinct (shape, size vector) for the consistency part plus distinct (type pair | length type, header value pair) for the large-value part; "
                    "every size is compared with the reference image length / a 128-bit product")
    rep.assume("a message without any non-constant member has no cursor accessor: its cursor-based size is the header size (see DESIGN.md)")
    return rep.finish()
