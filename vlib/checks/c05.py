"""C05 -- all size computations agree with the encoded size."""
from .. import cxx, libcheck, pipeline
from ..enum import shapes
from ..evidence import Report
from . import _cat
from ._lib import lib_run


def run(tier, replay=None):
    rep = Report("C05", tier, "exploration")
    cells = cxx.QUICK_CELLS if tier == "quick" else cxx.FOUR_CELLS
    cap = 12 if tier == "quick" else 40
    schemas = []
    for bo in ("littleEndian", "bigEndian"):
        schemas += shapes.catalogue(tier, bo)
    B = {"consistency": "catalogue families A and B, both byte orders, ladder <= %d size vectors per message: size_bytes of message / every group / entry / data / composite / array (random access), cursor position after every member and cursor-based size after a full traversal, trait-level size_bytes(counts..., total_data) of the message and of every group instance; all against the length of the reference image" % cap,
                       "large_values": "all 16 (numInGroup, blockLength) type pairs and 4 length types, header values {0,1,2,3,max/2,max/2+1,max-1,max} in a header-only guarded buffer; runtime size_bytes and trait formulas; cases whose size does not fit size_t excluded",
                       "message_block_lengths": "fields-only messages under every message-header blockLength type (uint8/16/32/64, int16/64): wire blockLength in {0, 1, compiled, 2^31-1, 2^31, max/2, max/2+1, max-h-1 .. max} (h = header size); size_bytes(m) must be header size + wire blockLength wherever that fits size_t",
                       "cells": [cxx.cell_name(c) for c in cells]}
    rep.set("bounds", B)
    # (i) run-time sizes, random access and cursor
    builts = pipeline.prepare("cat-" + tier, schemas, cells)
    total = pipeline.run(builts, cells, "vlib.checks._cat", "plan_dump", {"cap": cap, "flags": "cs", "modes": ("ra", "cur"), "seeds": (0x10,)},
                         deadline_s=700 if tier == "quick" else 3000)
    _cat.report_pipeline(rep, builts, total, "size")
    # (ii) trait-level formulas
    tb = pipeline.prepare("c05t-" + tier, schemas, cells, srcgen=("vlib.gen.sizex", "driver_source"))
    tt = pipeline.run(tb, cells, "vlib.checks._cat", "plan_traitsize", {"cap": cap})
    _cat.report_pipeline(rep, tb, tt, "traitsize")
    # (iii) large values
    vs = []
    for cell in cells:
        for schema, big in (("lib_le", 0), ("lib_be", 1)):
            vs.append(libcheck.Variant("%s-%s" % (cxx.cell_name(cell), schema), cell,
                                       ["SBEPP_ENABLE_ASSERTS_WITH_HANDLER", "SCHEMA=" + schema, "BIG=%d" % big], opt="-O1"))
    lib_run("C05", tier, "c05", "c05_sizes.cpp", vs, {}, 1, [], [], replay=replay, level="exploration", rep=rep, finish=False)
    rep.set("bounds", B)
    large_msg = message_block_lengths(rep, tier, cells)
    rep.set("message_block_length_evaluations", large_msg)
    large = rep.cov.get("evaluations", 0) + large_msg
    rep.set("large_value_evaluations", large)
    rep.set("size_observations", total.counters.get("sizes", 0) * len(cells))
    rep.set("trait_formula_evaluations", tt.cases)
    rep.set("evaluations", total.cases + tt.cases + large)
    rep.set("distinct_nontrivial", len(total.distinct) + rep.cov.get("states", 0))
    rep.set("rule", "distinct = distinct (shape, size vector) for the consistency part plus distinct (type pair | length type, header value pair) for the large-value part; "
                    "every size is compared with the reference image length / a 128-bit product")
    rep.assume("a message without any non-constant member has no cursor accessor: its cursor-based size is the header size (see DESIGN.md)")
    return rep.finish()


def message_block_lengths(rep, tier, cells):
    """(iv) size_bytes of a fields-only message = header size + *wire* blockLength, for every header blockLength type and
    values up to the type's maximum (the sum has to be formed in size_t, not in the header member's promoted type)"""
    import os
    from ..enum import headers
    from ..gen import build
    from ..model import layout
    from ..model.codec import psize
    wd = cxx.workdir("c05m-" + tier)
    n = 0
    sel = [(s, d) for s, d in headers.header_schemas() if "H:type:blockLength=" in d[0] or d[0].startswith("H:perm:b,t,s,v") or ":all=" in d[0]]
    for s, d in sel:
        sb = build.SchemaBuild(s, os.path.join(wd, s.package))
        if not sb.generate():
            rep.harness_error("header schema rejected: " + sb.log[-200:])
            continue
        rms = [rm for rm in layout.Resolver(s).messages() if not rm.level.groups and not rm.level.data]
        if not rms:
            continue
        rm = rms[0]
        slot = rm.header.slot("blockLength")
        w = psize(slot.prim)
        hsize = rm.header.size
        mx = (1 << (8 * w)) - 1
        vals = sorted({0, 1, rm.level.block_length, mx // 2, mx // 2 + 1, mx} | {mx - k for k in range(0, hsize + 2)} |
                      ({2 ** 31 - 1, 2 ** 31} if w >= 4 else set()))
        if slot.prim.startswith("int"):
            vals = [v for v in vals if v <= mx // 2]       # non-negative values of the signed member only
        cls = "::%s::messages::%s<unsigned char>" % (s.package, rm.name)
        src = ['#include <%s>' % sb.top_header(), '#include <cstdio>', '#include <cstring>', 'int main() {',
               '  alignas(8) unsigned char buf[256];']
        for v in vals:
            bs = v.to_bytes(w, "big" if s.big else "little")
            src.append('  { std::memset(buf, 0, sizeof buf); const unsigned char b_[] = {%s}; std::memcpy(buf + %d, b_, %d); %s m_{buf, sizeof buf};'
                       ' std::printf("%d %%llu\\n", (unsigned long long)::sbepp::size_bytes(m_)); }'
                       % (",".join(str(x) for x in bs), slot.offset, w, cls, v))
        src.append('  return 0; }')
        cpp = os.path.join(sb.root, "mbl.cpp")
        open(cpp, "w").write("\n".join(src))
        for cell in cells:
            exe = os.path.join(sb.root, "mbl_" + cxx.cell_name(cell))
            ok, log = cxx.build(cell, [cpp], exe, includes=[sb.inc], defines=["SBEPP_DISABLE_ASSERTS"], opt="-O1")
            if not ok:
                rep.harness_error("message-blockLength driver does not compile for %s on %s: %s" % (d[0], cxx.cell_name(cell), log[-400:]))
                continue
            rc, out = cxx.sh([exe], timeout=120)
            got = dict(tuple(int(x) for x in l.split()) for l in (out or "").splitlines() if l.strip())
            for v in vals:
                want = hsize + v
                if want >= 2 ** 64:
                    continue
                n += 1
                if got.get(v) != want:
                    rep.violation("message-size_bytes:header-blockLength=%s:%s" % (slot.prim, "beyond-32-bits" if want >= 2 ** 32 else "value"),
                                  {"schema": s.package, "layout": d[0], "cell": cxx.cell_name(cell), "wire_blockLength": v,
                                   "msg": "%s [%s]: size_bytes(%s) with wire blockLength %d = %s, expected header %d + %d = %d"
                                          % (d[0], cxx.cell_name(cell), rm.name, v, got.get(v), hsize, v, want)})
    return n
