"""generic runner for the C++ library explorers: FAIL / STATS line protocol -> Report"""
from .. import cxx, libcheck
from ..evidence import Report


def lib_run(pid, tier, name, src, variants, bounds, expected_configs_per_variant, samples, assumptions,
            replay=None, level="model_checking", extra_stats=None, rule=None, includes=(), rep=None, finish=True):
    rep = rep or Report(pid, tier, level)
    if replay:
        variants = [v for v in variants if v.tag == replay["case"].get("variant")] or variants
    b = dict(bounds)
    b["cells"] = sorted({cxx.cell_name(v.cell) for v in variants})
    rep.set("bounds", b)
    from .. import libschema
    try:
        results = libcheck.build_and_run(rep, name, src, variants, includes=includes)
    except libschema.Rejected as ex:
        # the property's objects cannot even be generated: every set width / index, dimension pair, length type and primitive
        # of the library schema is inside the property's quantifier, so a rejection is the property failing for that input
        import re
        m = re.search(r"Error[^\n]*", str(ex))
        diag = re.sub(r"\x1b\[[0-9;]*m", "", m.group(0) if m else str(ex))[:300]
        rep.violation("library-schema-rejected", {"msg": "sbeppc rejects the valid library schema the explorer is generated from: " + diag})
        for a in assumptions:
            rep.assume(a)
        return rep.finish() if finish else rep
    totals = {}
    configs = 0
    for v, lines, dt in results:
        fails = [l for l in lines if l[0] == "FAIL"]
        nconf = 0
        for l in lines:
            if l[0] == "COMPILE-ERROR":
                rep.violation(v.compile_sig or ("explorer-compile-error:" + cxx.cell_name(v.cell)),
                              {"variant": v.tag, "msg": "explorer does not compile against the tree: " + l[1][-1200:]})
            elif l[0] == "COMPILE-ERROR-CONSTEXPR":
                rep.violation("constexpr-table:static-assert-or-not-constant:" + cxx.cell_name(v.cell),
                              {"variant": v.tag, "msg": "the static_assert table does not compile against the tree: " + l[1][-1200:]})
            elif l[0] == "RUN-ERROR":
                rep.harness_error("%s: %s" % (v.tag, l[1:]))
            elif l[0] == "STATS":
                nconf += 1
                kv = dict(x.split("=", 1) for x in l[2:])
                for k, val in kv.items():
                    try:
                        totals[k] = totals.get(k, 0) + int(val)
                    except ValueError:
                        pass
                if len(rep.cov["samples"]) < 2:
                    rep.sample({"config": l[1], "stats": kv})
        configs += nconf
        if expected_configs_per_variant is not None and nconf != expected_configs_per_variant \
                and not any(l[0] in ("COMPILE-ERROR", "COMPILE-ERROR-CONSTEXPR", "RUN-ERROR") for l in lines):
            rep.harness_error("%s: expected %d configurations, saw %d" % (v.tag, expected_configs_per_variant, nconf))
        if fails:
            v2, lines2, _ = libcheck.rerun(name, src, v)
            if [l for l in lines2 if l[0] == "FAIL"] != fails:
                rep.harness_error("%s: failures not reproducible on re-run" % v.tag)
                continue
        for l in fails:
            _, sig, cfg, state, op, kind, detail = (l + [""] * 7)[:7]
            rep.violation(sig, {"variant": v.tag, "config": cfg, "state": state, "op": op, "kind": kind,
                                "msg": "%s on %s of %s: %s %s" % (op, state, cfg, kind, detail)})
    for s in samples:
        rep.sample(s, limit=10)
    for k in ("states", "transitions"):
        rep.set(k, totals.get(k, 0))
    rep.set("traces_validated_against_impl", totals.get("transitions", 0))
    rep.set("configurations", configs)
    for k, val in totals.items():
        if k not in ("states", "transitions", "failures") and (extra_stats is None or k in extra_stats):
            rep.set(k, val)
    if level != "model_checking":
        rep.set("evaluations", totals.get("transitions", 0))
        rep.set("distinct_nontrivial", totals.get("states", 0))
        rep.set("rule", rule or "complete enumeration of the stated product; distinct = distinct (type, value) states")
    for a in assumptions:
        rep.assume(a)
    if totals.get("transitions", 0) == 0 and not rep.violations:
        rep.harness_error("vacuous: no transitions executed")
    return rep.finish() if finish else rep
