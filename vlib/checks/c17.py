"""C17 -- header fillers write exactly the schema's identifying values, for every header / dimension layout."""
from .. import cxx, pipeline
from ..enum import headers
from ..evidence import Report
from . import _cat


def run(tier, replay=None):
    rep = Report("C17", tier, "exploration")
    cells = cxx.QUICK_CELLS if tier == "quick" else cxx.FOUR_CELLS
    schemas = []
    for bo in ("littleEndian", "bigEndian"):
        schemas += headers.header_schemas(bo)
        schemas += headers.dim_schemas(bo, with_ref_num=True)
    rep.set("bounds", {"message_headers": "all 24 permutations; numGroups/numVarDataFields subsets before/after; extra member at each position; gap before each member; each member and all members as <ref>; each member type over uint8/32/64; all-uint64 with counters",
                       "group_dimensions": "16 type pairs; numInGroup first; counters (after / before); extra member at each position; gaps; ref-typed blockLength",
                       "levels": "message with 0/1/2 groups and data, flat group, nested group and its inner group", "num_in_group_arguments": "0, 1, max-1, max of the numInGroup type (header-only), then the real count from {0,1,2}",
                       "byte_orders": 2, "drivers": ["random access", "cursor", "by tag"], "cells": [cxx.cell_name(c) for c in cells]})
    builts = pipeline.prepare("hdr-" + tier, schemas, cells)
    total = pipeline.run(builts, cells, "vlib.checks._cat", "plan_c01", {"cap": 6 if tier == "quick" else 20, "trials": True})
    _cat.report_pipeline(rep, builts, total, "hdr")
    rep.set("evaluations", total.cases)
    rep.set("fills_ok", total.ok)
    rep.set("header_and_member_writes", total.counters.get("ops", 0) * len(cells))
    rep.set("distinct_nontrivial", len({d.split(":")[1] + ":" + d.split(":")[2] for b in builts for d in b.descs if d.count(":") >= 2}))
    rep.set("rule", "one evaluation = one complete encode script (header fill first) on one layout/level/driver/cell, whole buffer compared after every op with the model's "
                    "image (header values, gaps and extra members untouched); distinct = distinct header/dimension layouts")
    rep.assume("numInGroup and blockLength given as <ref> are part of the alphabet since the sbeppc abort on them was repaired")
    if total.cases == 0 and not rep.violations:
        rep.harness_error("vacuous")
    return rep.finish()
