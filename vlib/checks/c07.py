"""C07 -- accepted schemas yield compilable, name-preserving headers."""
import os
import re
import shutil

from .. import cxx, repo
from ..enum import headers, kinds, names, shapes
from ..evidence import Report
from ..gen import build, traitx
from ..model import ir, layout


def instantiation_tu(schema, top_header, cxx17):
    """explicit instantiation of every view class for several byte types + by-name use of every public type"""
    ns = "::" + schema.package
    out = ['#include <%s>' % top_header, '#include <cstddef>']
    bytes_ = ["char", "unsigned char"] + (["std::byte"] if cxx17 else [])
    for m in schema.msgs:
        for b in bytes_:
            out.append('static_assert(sizeof(%s::messages::%s<%s>) > 0, "named");' % (ns, m.name, b))
    for t in schema.types:
        if isinstance(t, ir.Comp):
            for b in bytes_:
                out.append('static_assert(sizeof(%s::types::%s<%s>) > 0, "named");' % (ns, t.name, b))
            out.append('static_assert(sizeof(%s::types::%s<const char>) > 0, "named");' % (ns, t.name))
        elif isinstance(t, ir.T) and (t.presence != "constant") and str(t.length) not in ("None", "1"):
            out.append('static_assert(sizeof(%s::types::%s<const char>) > 0, "named");' % (ns, t.name))
        elif isinstance(t, (ir.Enum, ir.SetT)) or (isinstance(t, ir.T) and t.presence != "constant"):
            out.append('static_assert(sizeof(%s::types::%s) > 0, "named");' % (ns, t.name))
        if isinstance(t, ir.Enum):
            for v in t.values:
                out.append('static_assert(sizeof(%s::types::%s::%s) > 0, "enumerator");' % (ns, t.name, v[0]))
        if isinstance(t, ir.SetT):
            for c in t.choices:
                out.append('static_assert(sizeof(%s::types::%s{}.%s()) > 0, "choice");' % (ns, t.name, c[0]))
    for m in schema.msgs:
        out.append('static_assert(sizeof(%s::messages::%s<const char>) > 0, "named");' % (ns, m.name))
        out.append('static_assert(sizeof(%s::schema::messages::%s) > 0, "tag");' % (ns, m.name))
    out.append('static_assert(sizeof(%s::schema) > 0, "schema tag");' % ns)
    out.append("int main() { return 0; }")
    return "\n".join(out)


def run(tier, replay=None):
    rep = Report("C07", tier, "exploration")
    quick = tier == "quick"
    cells = cxx.QUICK_CELLS if quick else cxx.ALL_CELLS
    cat_cells = cxx.QUICK_CELLS if quick else cxx.FOUR_CELLS
    todo = []   # (family, desc, schema, full)
    for d, s in names.clash_schemas(tier):
        todo.append(("names", d, s, True))
    for d, s in names.refcase_schemas(tier):
        todo.append(("refcase", d, s, True))
    for s, descs in names.concat_schemas(tier):
        todo.append(("concat", "%s .. %s" % (descs[0], descs[-1]), s, True))
    for d, s in names.attribute_schemas(tier):
        todo.append(("attr", d, s, True))
    for d, s in names.numeric_schemas(tier):
        todo.append(("num", d, s, "header field is" in d))    # ids beyond the header field type: with the accessor driver
    todo.append(("kinds", "kinds", kinds.kinds_schema(), True))
    # command-line options that shape the output: --schema-name replaces the package as directory / namespace / top header
    # name (the package trait keeps the XML's), --inject-include puts an #include at the top of every generated header
    import copy
    cli_bases = [kinds.kinds_schema()] + [s for d, s in names.clash_schemas(tier) if not d.startswith("impl-name:")][:(1 if quick else 12)]
    for bi, base in enumerate(cli_bases):
        for oi, (nm, inj) in enumerate([("cli_ns%d" % bi, None), (None, "verif_inj.hpp"), ("messages", "sub/verif_inj.hpp"), (base.msgs[0].name, None),
                                        # the form cmake/sbeppcHelpers.cmake uses for its anchor file: relative to <out>/<schema>/schema/
                                        (None, "../../verif_anchor.hpp")]):
            s = copy.deepcopy(base)
            s.xml_package = base.package
            extra = []
            if nm:
                s.package = nm
                extra += ["--schema-name", nm]
            if inj:
                extra += ["--inject-include", inj]
                s.inject = inj
            s.sbeppc_extra = extra
            todo.append(("cli", "cli:%s:%s" % (base.package, " ".join(extra)), s, True))
    cat = shapes.catalogue(tier)
    for s, _ in (cat[::5] if quick else cat):
        todo.append(("catalogue", s.package, s, True))
    hs = headers.header_schemas()
    for s, _ in (hs[::10] if quick else hs):
        todo.append(("headers", s.package, s, True))
    rep.set("bounds", {"families": {"refcase": "17 reference sites (field/data/dimension/header types, refs, encoding types, valueRef) spelled in another letter case than the definition, one at a time and all together",
                                    "names": "every pair of name slots sharing a pool name + mangled-name patterns (thorough: all pool names, permutations, triples)",
                                    "concat": "all group forests with <= %d groups, depth <= 3 over %s (paths that join to the same string)" % (3 if quick else 4, names.CPOOL[:5] if quick else names.CPOOL),
                                    "attr": "19 string attribute kinds x tokens %s" % (names.STRING_TOKENS_QUICK if quick else names.STRING_TOKENS),
                                    "num": "16 numeric attribute kinds x literal forms %s + ids beyond the header field type + min, min+1, max-1, max of every integer primitive as minValue / maxValue / nullValue / constant / enum value" % (names.NUMERIC_FORMS[:8] if quick else names.NUMERIC_FORMS),
                                    "cli": "kinds + name-clash schemas compiled with --schema-name (a fresh name, `messages`, the first message's name) and / or --inject-include (plain and in a subdirectory): all of the above under the overriding name, package trait = the XML's, every generated header pulls in the injected header",
                                    "kinds / catalogue / headers": "as in C01/C17"},
                       "checks_per_accepted_schema": "every generated header compiled on its own; explicit instantiation of every view class for char / unsigned char / std::byte + by-name use of every type, enumerator, choice, message, tag; (names, concat, kinds, catalogue, headers) additionally the complete accessor driver (random access, every cursor form, by-tag, header fillers) and the traits TU (names must equal the schema's)",
                       "cells": [cxx.cell_name(c) for c in cells], "catalogue_cells": [cxx.cell_name(c) for c in cat_cells]})
    if os.environ.get("VERIF_C07_FAMILY"):      # development aid: one family only (never used by a registered command)
        todo = [t for t in todo if t[0] == os.environ["VERIF_C07_FAMILY"]]
    wd = cxx.workdir("c07-" + tier)

    import time
    deadline = time.time() + (25 * 60 if quick else 75 * 60)

    def one(item):
        idx, (fam, desc, s, full) = item
        if time.time() > deadline:
            return {"fam": fam, "desc": desc, "skipped": True}
        root = os.path.join(wd, "%s_%d" % (fam, idx))
        shutil.rmtree(root, ignore_errors=True)
        sb = build.SchemaBuild(s, root)
        res = {"fam": fam, "desc": desc, "pkg": s.package, "accepted": False, "fails": [], "compiles": 0}
        try:
            ok = sb.generate(extra=getattr(s, "sbeppc_extra", ()))
            if ok and getattr(s, "inject", None):
                # the injected header must be seen by every generated header before anything else: it defines a macro that
                # each stand-alone compile demands (-include of a checker is not possible per header, so the checker is the
                # header-alone TU itself, see below)
                ip = os.path.join(sb.inc, os.path.basename(s.inject) if s.inject.startswith("../../") else s.inject)
                os.makedirs(os.path.dirname(ip), exist_ok=True)
                open(ip, "w").write("#pragma once\n#define VERIF_INJECTED 1\n")
        except Exception as ex:     # rendering problems are ours
            res["harness"] = "generate: %r" % ex
            return res
        if not ok:
            res["reject_msg"] = re.sub(r"\x1b\[[0-9;]*m", "", sb.log)[-200:]
            res["rc"] = sb.rc
            shutil.rmtree(root, ignore_errors=True)
            return res
        res["accepted"] = True
        use_cells = cat_cells if fam in ("catalogue", "headers", "concat") else cells
        hdrs = []
        for d, _, files in os.walk(sb.inc):
            hdrs += [os.path.join(d, f) for f in files if f.endswith(".hpp")]
        for ci, cell in enumerate(use_cells):
            cn = cxx.cell_name(cell)
            # include completeness does not depend on the language standard: each header alone on the first two cells
            # (one per compiler front end), the combined TUs on every cell
            for h in (sorted(hdrs) if ci < (1 if quick else 2) else []):
                okc, log = cxx.syntax(cell, h, includes=[sb.inc], extra=["-x", "c++"], nowarn=False)
                res["compiles"] += 1
                if not okc:
                    res["fails"].append(("header-alone", cn, os.path.relpath(h, sb.inc), log[-1200:]))
                elif getattr(s, "inject", None):
                    chk = os.path.join(root, "inj_chk.cpp")
                    open(chk, "w").write('#include "%s"\n#ifndef VERIF_INJECTED\n#error "generated header does not include the injected header"\n#endif\n'
                                         % os.path.relpath(h, sb.inc))
                    okc, log = cxx.syntax(cell, chk, includes=[sb.inc], nowarn=False)
                    res["compiles"] += 1
                    if not okc:
                        res["fails"].append(("inject-include-missing", cn, os.path.relpath(h, sb.inc), log[-600:]))
            tu = os.path.join(root, "inst.cpp")
            open(tu, "w").write(instantiation_tu(s, sb.top_header(), cell[1] not in ("c++11", "c++14")))
            okc, log = cxx.syntax(cell, tu, includes=[sb.inc], nowarn=False)
            res["compiles"] += 1
            if not okc:
                res["fails"].append(("instantiate-and-name", cn, "inst.cpp", log[-1500:]))
            if full:
                try:
                    rmsgs = layout.Resolver(s).messages()
                    drv = os.path.join(root, "drv.cpp")
                    open(drv, "w").write(build.driver_source(s, rmsgs, sb.top_header()))
                    okc, log = cxx.syntax(cell, drv, includes=[sb.inc], defines=["SBEPP_ENABLE_ASSERTS_WITH_HANDLER"], nowarn=False)
                    res["compiles"] += 1
                    if not okc:
                        res["fails"].append(("accessor-driver", cn, "drv.cpp", log[-1500:]))
                    src, exp, counts = traitx.source(s, sb.top_header())
                    tcpp = os.path.join(root, "traits.cpp")
                    open(tcpp, "w").write(src)
                    exe = os.path.join(root, "traits_" + cn)
                    okc, log = cxx.build(cell, [tcpp], exe, includes=[sb.inc], defines=["SBEPP_ENABLE_ASSERTS_WITH_HANDLER"], nowarn=False)
                    res["compiles"] += 1
                    if not okc:
                        res["fails"].append(("traits-and-tags", cn, "traits.cpp", log[-1500:]))
                    else:
                        rc, out = cxx.sh([exe], timeout=60)
                        want = [l for l in exp.splitlines() if "|name=" in l]
                        got = [l for l in out.splitlines() if "|name=" in l]
                        if want != got:
                            bad = [(w, g) for w, g in zip(want, got) if w != g][:3]
                            res["fails"].append(("name-not-preserved", cn, "traits", repr(bad)))
                except Exception as ex:
                    res["harness"] = "driver generation: %r" % ex
        shutil.rmtree(root, ignore_errors=True)
        return res

    accepted = rejected = compiles = 0
    results = cxx.pmap(one, list(enumerate(todo)))
    nskip = sum(1 for r in results if r.get("skipped"))
    if nskip:
        rep.cap("global deadline reached: %d of %d schemas not processed (families are processed in the order names, refcase, concat, attr, num, kinds, cli, catalogue, headers; the processed prefix is complete)" % (nskip, len(results)))
    for r in [r for r in results if not r.get("skipped")]:
        if "harness" in r:
            rep.harness_error("%s %s: %s" % (r["fam"], r["desc"], r["harness"]))
            continue
        if not r["accepted"]:
            rejected += 1
            rep.add("rejected_" + r["fam"], 1)
            if r.get("rc") is None or (r.get("rc") or 0) < 0:
                rep.assume("sbeppc crashed on %s (C09's business): %s" % (r["desc"], r.get("reject_msg", "")[:80]))
            continue
        accepted += 1
        compiles += r["compiles"]
        rep.add("accepted_" + r["fam"], 1)
        rep.distinct("distinct_nontrivial", (r["fam"], r["desc"]))
        for kind, cn, what, log in r["fails"]:
            first = [l for l in log.splitlines() if "error" in l][:2]
            axis = r["desc"].split("=")[0] if r["fam"] in ("attr", "num") else r["fam"]
            sig = "%s:%s:%s" % (kind, r["fam"], axis if r["fam"] in ("attr", "num") else "")
            if r["desc"].startswith("impl-name:"):
                # a schema name that collides with an identifier of the emitted code: identified by the name
                sig = "impl-identifier-clash:" + r["desc"][len("impl-name:"):].split("@")[0]
            rep.violation(sig,
                          {"family": r["fam"], "schema_desc": r["desc"], "cell": cn, "file": what,
                           "msg": "%s [%s] %s on %s: %s" % (r["desc"], kind, what, cn, " | ".join(first) or log[-300:])})
        if len(rep.cov["samples"]) < 5 and r["fam"] in ("names", "attr"):
            rep.sample({"family": r["fam"], "schema": r["desc"], "accepted": True, "compiles": r["compiles"]})
    rep.set("programs", accepted)
    rep.set("evaluations", compiles)
    rep.set("schemas_generated", len(todo) - nskip)
    rep.set("rejected_by_sbeppc", rejected)
    rep.set("rule", "one evaluation = one TU compiled on one cell; distinct = distinct accepted schemas; schemas sbeppc rejects are only counted (C08 decides those)")
    if accepted == 0 and not rep.violations:
        rep.harness_error("vacuous")
    return rep.finish()
