"""C03 -- decoding honours the wire blockLength (schema extension) at every level independently."""
from .. import cxx, pipeline
from ..enum import shapes
from ..evidence import Report
from . import _cat


def run(tier, replay=None):
    rep = Report("C03", tier, "exploration")
    cells = cxx.QUICK_CELLS if tier == "quick" else cxx.FOUR_CELLS
    cap = 6 if tier == "quick" else 24
    ext = (0, 1, 7)
    schemas = []
    for bo in ("littleEndian", "bigEndian"):
        schemas += shapes.catalogue(tier, bo)
    rep.set("bounds", {"catalogue": "families A and B, both byte orders", "size_vectors": "ladder, <= %d per message" % cap,
                       "wire_block_length_extension": "each of %s independently per level (root, every group at every depth): 3^L vectors, L <= 4 (capped at 81)" % (ext,),
                       "readers": ["random access", "plain cursor traversal", "get_by_tag"], "observed": "values, constants, view addresses, size_bytes of message/group/entry/data",
                       "cells": [cxx.cell_name(c) for c in cells]})
    builts = pipeline.prepare("cat-" + tier, schemas, cells)
    total = pipeline.run(builts, cells, "vlib.checks._cat", "plan_dump",
                         {"cap": cap, "ext": ext, "flags": "s", "seeds": (0x10,)},
                         deadline_s=700 if tier == "quick" else 3600)
    _cat.report_pipeline(rep, builts, total, "ext")
    from ..enum import kinds
    kcells = cxx.CODEC_CELLS if tier == "quick" else cxx.ALL_CELLS
    ks = []
    for bo in ("littleEndian", "bigEndian"):
        s = kinds.kinds_schema(bo)
        ks.append((s, [m.name for m in s.msgs]))
    kb = pipeline.prepare("kinds-" + tier, ks, kcells)
    kt = pipeline.run(kb, kcells, "vlib.checks._cat", "plan_dump", {"cap": 6, "ext": ext, "flags": "s", "seeds": (0x10,)})
    _cat.report_pipeline(rep, kb, kt, "ext-kinds")
    total.cases += kt.cases
    total.ok += kt.ok
    total.distinct |= kt.distinct
    rep.set("evaluations", total.cases)
    rep.set("decoded_ok", total.ok)
    rep.set("distinct_nontrivial", len(total.distinct))
    rep.set("rule", "one evaluation = one (shape, size vector, extension vector, reader, cell) image decoded completely; distinct = distinct (shape, size vector); "
                    "non-trivial = at least one level is longer on the wire than compiled in all but one vector per instance")
    rep.assume("appended bytes hold a distinct filler (0xEE); the compiled fields keep their offsets (a newer schema version only appends)")
    rep.assume("visiting under extended block lengths is exercised by C19's recorder on the same images")
    if total.cases == 0 and not rep.violations:
        rep.harness_error("vacuous: nothing decoded")
    return rep.finish()
