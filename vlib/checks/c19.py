"""C19 -- visiting and tag-based access enumerate members faithfully (history = callback sequence, every stop point)."""
from .. import cxx, pipeline
from ..enum import kinds, shapes
from ..evidence import Report
from . import _cat


def run(tier, replay=None):
    rep = Report("C19", tier, "model_checking")
    cells = cxx.QUICK_CELLS
    cap = 4 if tier == "quick" else 16
    rep.set("bounds", {"schemas": "kinds (every representation kind, enum valid + invalid values, sets) and catalogue families A and B",
                       "size_vectors": "ladder, <= %d per message" % cap,
                       "visits": "visit(message, cursor, v); visit(message, v); visit_children(group, cursor, v) for every top-level group; composites, enums and sets through on_field/on_type descent",
                       "by_tag": "complete cursor traversals through get_by_tag<Tag>(view, wrapper(cursor)) for every wrapper-choice string of length <= %d, iteration styles cursor_range and split subranges" % (2 if tier == "quick" else 3),
                       "stop_points": "return true at the k-th bool callback for every k = 1..#callbacks",
                       "wire_block_length": "compiled, and +3 at every level (visiting under schema extension)",
                       "cells": [cxx.cell_name(c) for c in cells]})
    ks = []
    for bo in ("littleEndian", "bigEndian"):
        s = kinds.kinds_schema(bo)
        ks.append((s, [m.name for m in s.msgs]))
    kb = pipeline.prepare("c19k-" + tier, ks, cells, srcgen=("vlib.gen.visitx", "driver_source"))
    fields = ("runs", "blocks")
    kt = pipeline.run(kb, cells, "vlib.checks._cat", "plan_visit", {"cap": cap, "boundary": True, "nvalues": 8, "ok_fields": fields})
    _cat.report_pipeline(rep, kb, kt, "visit-kinds")
    schemas = []
    for bo in ("littleEndian",):
        schemas += shapes.catalogue(tier, bo)
    cb = pipeline.prepare("c19c-" + tier, schemas, cells, srcgen=("vlib.gen.visitx", "driver_source"))
    ct = pipeline.run(cb, cells, "vlib.checks._cat", "plan_visit", {"cap": cap, "ok_fields": fields},
                      deadline_s=600 if tier == "quick" else 3000)
    _cat.report_pipeline(rep, cb, ct, "visit")
    ct2 = pipeline.run(cb, cells, "vlib.checks._cat", "plan_visit", {"cap": max(2, cap // 2), "ext": 3, "ok_fields": fields},
                       deadline_s=600 if tier == "quick" else 3000)
    _cat.report_pipeline(rep, [], ct2, "visit-ext")
    # get_by_tag with cursors == named cursor accessors: complete in-order traversals through get_by_tag<Tag>(view, cursor)
    # with every wrapper-choice string (the drivers are C04's traversal drivers; the expected trace -- values, view
    # addresses, cursor after every call -- is the model's trace for the named accessors)
    tcells = cells[:1] if tier == "quick" else cells
    tb = pipeline.prepare("c04t-" + tier, schemas, cxx.QUICK_CELLS if tier == "quick" else cxx.FOUR_CELLS, srcgen=("vlib.gen.traverse", "driver_source"))
    tt = pipeline.run(tb, tcells, "vlib.checks._cat", "plan_traverse", {"cap": cap, "maxlen": 2 if tier == "quick" else 3, "only_tag": True},
                      deadline_s=600 if tier == "quick" else 3000)
    _cat.report_pipeline(rep, [], tt, "by-tag-traverse")
    rep.set("by_tag_cursor_traversals", tt.cases)
    runs = kt.counters.get("runs", 0) + ct.counters.get("runs", 0) + ct2.counters.get("runs", 0)
    blocks = kt.counters.get("blocks", 0) + ct.counters.get("blocks", 0) + ct2.counters.get("blocks", 0)
    rep.set("states", blocks)          # event-log prefixes = one per stop point
    rep.set("transitions", runs)       # visits executed (complete + one per stop point)
    rep.set("traces_validated_against_impl", runs)
    rep.set("visited_images", kt.cases + ct.cases + ct2.cases)
    rep.assume("get_by_tag/set_by_tag without cursor == named accessors is decided by the 'tag' drivers of C01 (writes, buffer after) and C02 (values, addresses); with cursors by the by-tag traversals here")
    rep.assume("a group visited directly receives its name string instead of a tag (outside the property's sentence); only groups reached through their parent are compared")
    if runs == 0 and not rep.violations:
        rep.harness_error("vacuous")
    return rep.finish()
