"""C02 -- decoding returns exactly what a conforming (independent) encoder wrote."""
from .. import cxx, pipeline
from ..enum import shapes
from ..evidence import Report
from . import _cat


def run(tier, replay=None):
    rep = Report("C02", tier, "exploration")
    cells = cxx.QUICK_CELLS if tier == "quick" else cxx.FOUR_CELLS
    cap = 12 if tier == "quick" else 40
    schemas = []
    for bo in ("littleEndian", "bigEndian"):
        schemas += shapes.catalogue(tier, bo)
    rep.set("bounds", {"catalogue": "families A and B, both byte orders", "size_vectors": "ladder, <= %d per message" % cap,
                       "value_vectors": 2, "readers": ["random access", "plain cursor traversal", "get_by_tag"],
                       "cells": [cxx.cell_name(c) for c in cells]})
    builts = pipeline.prepare("cat-" + tier, schemas, cells)
    total = pipeline.run(builts, cells, "vlib.checks._cat", "plan_dump", {"cap": cap, "flags": ""},
                         deadline_s=700 if tier == "quick" else 3600)
    _cat.report_pipeline(rep, builts, total, "dec")
    # kinds: every primitive / representation kind with the full boundary value set, on more cells
    from ..enum import kinds
    kcells = cxx.QUICK_CELLS if tier == "quick" else cxx.ALL_CELLS
    ks = [(kinds.kinds_schema(bo), None) for bo in ("littleEndian", "bigEndian")]
    ks = [(s, [m.name for m in s.msgs]) for s, _ in ks]
    kb = pipeline.prepare("kinds-" + tier, ks, kcells)
    ktotal = pipeline.run(kb, kcells, "vlib.checks._cat", "plan_dump_kinds", {"cap": 8 if tier == "quick" else 30, "flags": ""})
    _cat.report_pipeline(rep, kb, ktotal, "dec-kinds")
    rep.set("kinds_evaluations", ktotal.cases)
    rep.set("kinds_cells", [cxx.cell_name(c) for c in kcells])
    rep.set("evaluations", total.cases + ktotal.cases)
    rep.set("decoded_ok", total.ok + ktotal.ok)
    rep.set("distinct_nontrivial", len(total.distinct) + len(ktotal.distinct))
    rep.set("rule", "one evaluation = one (message shape, size vector, value vector, reader, cell) image decoded completely; "
                    "distinct = distinct (shape, size vector); every image comes from the reference encoder, never from sbepp")
    rep.assume("compared: every value (bit pattern), every constant, every view address; cursor positions and size queries are C04/C05's observations and are filtered out here")
    rep.assume("images are produced by vlib/model/codec.py; values are bit patterns (floats compared bit-exactly, NaN patterns in the kinds schema)")
    if total.cases == 0 and not rep.violations:
        rep.harness_error("vacuous: nothing decoded")
    return rep.finish()
