"""C02 -- decoding returns exactly what a conforming (independent) encoder wrote."""
from .. import cxx, pipeline
from ..enum import shapes
from ..evidence import Report
from . import _cat


def run(tier, replay=None):
    rep = Report("C02", tier, "exploration")
    cells = cxx.QUICK_CELLS if tier == "quick" else cxx.FOUR_CELLS
    cap = 12 if tier == "quick" else 40
    schemas = []
    for bo in ("littleEndian", "bigEndian"):
        schemas += shapes.catalogue(tier, bo)
    rep.set("bounds", {"catalogue": "families A and B, both byte orders", "size_vectors": "ladder, <= %d per message" % cap,
                       "value_vectors": 2, "readers": ["random access", "plain cursor traversal", "get_by_tag"],
                       "cells": [cxx.cell_name(c) for c in cells]})
    builts = pipeline.prepare("cat-" + tier, schemas, cells)
    total = pipeline.run(builts, cells, "vlib.checks._cat", "plan_dump", {"cap": cap, "flags": ""},
                         deadline_s=700 if tier == "quick" else 3600)
    _cat.report_pipeline(rep, builts, total, "dec")
    # kinds: every primitive / representation kind with the full boundary value set, on more cells
    from ..enum import kinds
    kcells = cxx.CODEC_CELLS if tier == "quick" else cxx.ALL_CELLS
    ks = [(kinds.kinds_schema(bo), None) for bo in ("littleEndian", "bigEndian")]
    ks = [(s, [m.name for m in s.msgs]) for s, _ in ks]
    kb = pipeline.prepare("kinds-" + tier, ks, kcells)
    ktotal = pipeline.run(kb, kcells, "vlib.checks._cat", "plan_dump_kinds", {"cap": 8 if tier == "quick" else 30, "flags": ""})
    _cat.report_pipeline(rep, kb, ktotal, "dec-kinds")
    # constant evaluation (C++20 and later): the same images as constexpr arrays, every scalar getter static_asserted
    import os
    from ..enum import values
    from ..gen import build as gbuild, constexprx
    from ..model import codec, layout
    ce_cells = [("g++", "c++20"), ("clang++", "c++20")] if tier == "quick" else [("g++", "c++20"), ("g++", "c++23"), ("clang++", "c++20"), ("clang++", "c++2b")]
    ce_asserts = 0
    for s, _ in ks:
        root = os.path.join(cxx.workdir("c02ce-" + tier), s.package)
        sb = gbuild.SchemaBuild(s, root)
        if not sb.generate():
            rep.harness_error("kinds rejected: " + sb.log[-300:])
            continue
        rms = layout.Resolver(s).messages()
        cases = []
        for rm in rms:
            for shape in list(values.size_vectors(rm.level, (2,), (1,)))[:1] + list(values.size_vectors(rm.level, (0, 1), (0,)))[:2]:
                for j in range(15 if tier != "quick" else 6):
                    inst = values.fill_boundary(rm.level, shape, j, values.ByteGen(0x21 + j))
                    img, placed = codec.encode(s, rm, inst, fill=0xEE)
                    cases.append((rm, inst, img, placed))
        src, n = constexprx.source(s, rms, sb.top_header(), cases)
        cpp = os.path.join(root, "ce.cpp")
        open(cpp, "w").write(src)
        for cell, (okc, log) in zip(ce_cells, cxx.pmap(lambda c: cxx.syntax(c, cpp, includes=[sb.inc], nowarn=False), ce_cells)):
            ce_asserts += n
            if not okc:
                first = [l for l in log.splitlines() if "error" in l or "static assertion" in l][:3]
                rep.violation("constexpr-getter:%s" % ("static-assert" if "static assertion" in log or "static_assert" in log else "not-constant-evaluable"),
                              {"schema": s.package, "cell": cxx.cell_name(cell), "msg": "%s on %s: %s" % (s.package, cxx.cell_name(cell), " | ".join(first))})
    rep.set("constexpr_static_asserts", ce_asserts)
    rep.set("constexpr_cells", [cxx.cell_name(c) for c in ce_cells])
    rep.set("kinds_evaluations", ktotal.cases)
    rep.set("kinds_cells", [cxx.cell_name(c) for c in kcells])
    rep.set("evaluations", total.cases + ktotal.cases + ce_asserts)
    rep.set("decoded_ok", total.ok + ktotal.ok)
    rep.set("distinct_nontrivial", len(total.distinct) + len(ktotal.distinct))
    rep.set("rule", "one evaluation = one (message shape, size vector, value vector, reader, cell) image decoded completely; "
                    "distinct = distinct (shape, size vector); every image comes from the reference encoder, never from sbepp")
    rep.assume("compared: every value (bit pattern), every constant, every view address; cursor positions and size queries are C04/C05's observations and are filtered out here")
    rep.assume("images are produced by vlib/model/codec.py; values are bit patterns (floats compared bit-exactly, NaN patterns in the kinds schema)")
    if total.cases == 0 and not rep.violations:
        rep.harness_error("vacuous: nothing decoded")
    return rep.finish()
