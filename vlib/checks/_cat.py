"""Shared pieces of the catalogue-driven checks (C01, C02, C03, C05, ...): bounds, plans, reporting."""
import itertools

from .. import cxx, pipeline
from ..enum import shapes, values
from ..gen import walk
from ..model import codec

# (group sizes per depth, data lengths per depth); the last entry of a list repeats for deeper levels.  Rungs are ordered
# so that a top-level group of two entries survives down to very small caps (stride / subrange bugs need n >= 2).
LADDER = [
    ([(0, 1, 2)], [(0, 1, 3)]),
    ([(0, 1, 2), (0, 1, 2), (0, 1)], [(0, 1, 3), (0, 2), (1,)]),
    ([(0, 1, 2), (0, 2), (1,)], [(0, 2), (0, 2), (1,)]),
    ([(0, 1, 2), (0, 1), (1,)], [(0, 2), (1,), (1,)]),
    ([(0, 2), (2,), (1,)], [(0, 2), (1,), (1,)]),
    ([(0, 2), (1,), (1,)], [(0, 2), (1,), (1,)]),
    ([(0, 2), (1,), (1,)], [(1,), (1,), (1,)]),
    ([(2,), (1,), (1,)], [(1,), (1,), (1,)]),
]


def adaptive_bounds(rm, cap):
    """largest rung of the ladder whose complete product has at most `cap` size vectors"""
    for gs, dl in LADDER:
        if values.count_size_vectors(rm.level, gs, dl) <= cap:
            return gs, dl
    return LADDER[-1]


def leaf_labels(rm):
    """labels of the non-structural leaves in script order (for write masks)"""
    out = []

    def node(n, label):
        if n.kind in ("scalar", "array"):
            out.append(label)
        elif n.kind == "composite":
            for m in n.members:
                if m.node.kind != "const":
                    node(m.node, label + "." + m.name)

    def level(rl, label):
        for f in rl.fields:
            if f.node.kind != "const":
                node(f.node, label + "." + f.name)
        for g in rl.groups:
            level(g.level, label + "." + g.name + "[]")

    level(rm.level, rm.name)
    return out


def masks(labels, kmax=4):
    """all 2^k subsets when k <= kmax, else all / none / each-one-skipped / each-one-alone"""
    k = len(labels)
    if k <= kmax:
        for bits in itertools.product((True, False), repeat=k):
            yield {l for l, b in zip(labels, bits) if b}
    else:
        yield set(labels)
        yield set()
        for l in labels:
            yield set(labels) - {l}
            yield {l}


def stale_background(schema, rm, cap_len, seed=0x33):
    """a *valid image of the same message* with different sizes/values, cut or padded to cap_len"""
    shape = next(values.size_vectors(rm.level, (1,), (3,)))
    inst = values.fill(rm.level, shape, values.ByteGen(seed))
    img, _ = codec.encode(schema, rm, inst, fill=0x5A)
    img = (img + bytes([0x5A]) * cap_len)[:cap_len]
    return img


# ---------------------------------------------------------------- plans (run inside worker processes)

def plan_c01(schema, rm, mi, desc, lines, meta, res, cap=24, modes=walk.ENC_MODES, seeds=(0x10, 0x81), trials=False):
    gs, dl = adaptive_bounds(rm, cap)
    labels = leaf_labels(rm)
    shapes_ = list(values.size_vectors(rm.level, gs, dl))
    res.counters["shapes"] = res.counters.get("shapes", 0) + 1
    res.counters["size_vectors"] = res.counters.get("size_vectors", 0) + len(shapes_)
    how = 0
    for si, shape in enumerate(shapes_):
        last = si == len(shapes_) - 1
        for seed in seeds:
            inst = values.fill(rm.level, shape, values.ByteGen(seed))
            placed = codec.place_message(rm, inst)
            n = placed.end
            cap_len = n + 8
            bgs = [("A5", bytes([0xA5]) * cap_len), ("stale", stale_background(schema, rm, cap_len))]
            mask_list = list(masks(labels)) if (last and seed == seeds[0]) else [set(labels)]
            for mk in mask_list:
                for bgname, bg in (bgs if len(mk) == len(labels) else bgs[:1]):
                    how += 1
                    sc = walk.Script(schema, rm, placed, inst, write_mask=lambda l, mk=mk: l in mk,
                                     data_how=lambda l, h=how: h % 6, group_how=lambda l, h=how: (h // 6) % 2)
                    sc.trials = trials
                    toks = sc.build()
                    for mode in modes:
                        cid = "e%d" % len(meta)
                        lines.append("E %s %d %s %d %s %s" % (cid, mi, mode, n, bg.hex(), toks))
                        meta[cid] = {"message": rm.name, "desc": desc, "mode": mode, "shape": values.shape_str(shape),
                                     "seed": seed, "bg": bgname, "skipped": sorted(set(labels) - mk), "ops": sc.nops,
                                     "line": lines[-1] if len(lines[-1]) < 3000 else None}
                        res.counters["ops"] = res.counters.get("ops", 0) + sc.nops
            res.distinct.add((desc, values.shape_str(shape)))
    if len(res.samples) < 2:
        res.samples.append({"message": desc, "mode": "cur", "script": toks[:300]})


def plan_dump(schema, rm, mi, desc, lines, meta, res, cap=24, modes=walk.MODES, seeds=(0x10, 0x81), ext=None, flags="cs"):
    """C02 (ext=None) / C03 (ext = tuple of per-level extension choices)"""
    gs, dl = adaptive_bounds(rm, cap)
    ex = walk.Expect(schema, rm)
    # level paths in depth-first order
    paths = []

    def collect(rl, path):
        paths.append(path)
        for g in rl.groups:
            collect(g.level, path + (g.name,))

    collect(rm.level, ())
    ext_vectors = [None]
    if ext:
        ext_vectors = [dict(zip(paths, v)) for v in itertools.product(ext, repeat=len(paths))]
        if len(ext_vectors) > 81:
            ext_vectors = ext_vectors[:81]
        # one level at a time grown to a wire blockLength of 300 (beyond 8 bits: the value no longer fits a narrower
        # numInGroup / index type), where the level's blockLength header member can carry it; all other levels unchanged
        from ..model.codec import psize

        def bl_slot(path):
            if not path:
                return rm.header.slot("blockLength"), rm.level
            rl, g = rm.level, None
            for nm in path:
                g = [x for x in rl.groups if x.name == nm][0]
                rl = g.level
            return g.dim.slot("blockLength"), rl

        for pth in paths:
            slot, rl = bl_slot(pth)
            if psize(slot.prim) >= 2 and not slot.prim.startswith("int8") and rl.block_length < 300:
                v = {q: 0 for q in paths}
                v[pth] = 300 - rl.block_length
                ext_vectors.append(v)
    res.counters["shapes"] = res.counters.get("shapes", 0) + 1
    for shape in values.size_vectors(rm.level, gs, dl):
        for seed in seeds:
            inst = values.fill(rm.level, shape, values.ByteGen(seed))
            for ev in ext_vectors:
                blf = codec.default_bl if ev is None else (lambda path, rl, ev=ev: rl.block_length + ev[path])
                img, placed = codec.encode(schema, rm, inst, blf=blf, fill=0xEE)
                hv = codec.header_values(schema, rm, placed)
                for mode in modes:
                    exp = walk.filter_dump(ex.dump(placed, inst, mode, hv), flags)
                    cid = "d%d" % len(meta)
                    lines.append("D %s %d %s %s %d %s" % (cid, mi, mode, img.hex() if img else "-", exp.count("\n"), flags or "-"))
                    lines.append(exp.rstrip("\n"))
                    meta[cid] = {"message": rm.name, "desc": desc, "mode": mode, "shape": values.shape_str(shape), "seed": seed,
                                 "ext": None if ev is None else {"/".join(k) or "root": v for k, v in ev.items()},
                                 "image": img.hex()}
                    res.counters["values"] = res.counters.get("values", 0) + exp.count("=")
                    res.counters["sizes"] = res.counters.get("sizes", 0) + exp.count("sz=")
            res.distinct.add((desc, values.shape_str(shape)))
    if len(res.samples) < 2:
        res.samples.append({"message": desc, "image": img.hex(), "expected_dump_head": exp.splitlines()[:8]})


def plan_c04(schema, rm, mi, desc, lines, meta, res, cap=6, seeds=(0x10,), const_cursor=True):
    from ..gen import cursorx
    gs, dl = adaptive_bounds(rm, cap)
    res.counters["shapes"] = res.counters.get("shapes", 0) + 1
    for shape in values.size_vectors(rm.level, gs, dl):
        for seed in seeds:
            inst = values.fill(rm.level, shape, values.ByteGen(seed))
            img, placed = codec.encode(schema, rm, inst, fill=0xEE)
            toks = cursorx.expectation_tokens(rm, placed, inst, schema.big)
            for kind in (("M", "C") if const_cursor else ("M",)):
                cid = "x%d" % len(meta)
                lines.append("%s %s %d %s %s" % (kind, cid, mi, img.hex(), toks))
                meta[cid] = {"message": rm.name, "desc": desc, "mode": "cursor<%s>" % ("const byte" if kind == "C" else "byte"),
                             "shape": values.shape_str(shape), "seed": seed, "image": img.hex()}
            res.distinct.add((desc, values.shape_str(shape)))
    if len(res.samples) < 2:
        res.samples.append({"message": desc, "image": img.hex(), "expectations(req+1,after_move,after_stay,after_skip,result,width)": toks[:200]})


def plan_dump_kinds(schema, rm, mi, desc, lines, meta, res, cap=8, modes=walk.MODES, flags="", nvalues=15):
    """every scalar leaf sees every boundary bit pattern of its primitive (incl. NaN payloads, extremes)"""
    gs, dl = adaptive_bounds(rm, cap)
    ex = walk.Expect(schema, rm)
    res.counters["shapes"] = res.counters.get("shapes", 0) + 1
    for shape in values.size_vectors(rm.level, gs, dl):
        for j in range(nvalues):
            inst = values.fill_boundary(rm.level, shape, j, values.ByteGen(0x21 + j))
            img, placed = codec.encode(schema, rm, inst, fill=0xEE)
            hv = codec.header_values(schema, rm, placed)
            back, _ = codec.decode(schema, rm, img)
            if back != inst:
                res.errors.append(("model-selfcheck", "decode(encode(x)) != x for %s" % rm.name))
            for mode in modes:
                exp = walk.filter_dump(ex.dump(placed, inst, mode, hv), flags)
                cid = "k%d" % len(meta)
                lines.append("D %s %d %s %s %d %s" % (cid, mi, mode, img.hex() if img else "-", exp.count("\n"), flags or "-"))
                lines.append(exp.rstrip("\n"))
                meta[cid] = {"message": rm.name, "desc": desc, "mode": mode, "shape": values.shape_str(shape), "seed": j,
                             "image": img.hex()}
                res.counters["values"] = res.counters.get("values", 0) + exp.count("=")
            res.distinct.add((desc, values.shape_str(shape), j))


def plan_visit(schema, rm, mi, desc, lines, meta, res, cap=6, boundary=False, nvalues=6, seeds=(0x10,), ext=None):
    from ..gen import visitx
    from ..model import layout
    gs, dl = adaptive_bounds(rm, cap)
    vx = visitx.VisitExpect(schema, rm, layout.Resolver(schema))
    res.counters["shapes"] = res.counters.get("shapes", 0) + 1
    blf = codec.default_bl if not ext else (lambda path, rl: rl.block_length + ext)
    for shape in values.size_vectors(rm.level, gs, dl):
        insts = ([values.fill_boundary(rm.level, shape, j, values.ByteGen(0x21 + j)) for j in range(nvalues)] if boundary
                 else [values.fill(rm.level, shape, values.ByteGen(sd)) for sd in seeds])
        for inst in insts:
            img, placed = codec.encode(schema, rm, inst, blf=blf, fill=0xEE)
            full = vx.message_log(placed, inst)
            jobs = [(0, 0, full, placed.end), (0, 1, full, -2)]
            for gi in range(len(placed.groups)):
                glog, gend = vx.group_log(placed, inst, gi)
                jobs.append((gi + 1, 0, glog, gend))
            for sel, how, log, cur in jobs:
                cid = "v%d" % len(meta)
                lines.append("V %s %d %d %d %s %d %d" % (cid, mi, sel, how, img.hex() if img else "-", cur, log.count("\n")))
                if log:
                    lines.append(log.rstrip("\n"))
                meta[cid] = {"message": rm.name, "desc": desc, "mode": "visit sel=%d how=%d" % (sel, how), "shape": values.shape_str(shape),
                             "image": img.hex()}
            res.distinct.add((desc, values.shape_str(shape)))
    if len(res.samples) < 2:
        res.samples.append({"message": desc, "expected_log_head": full.splitlines()[:8]})


def plan_traitsize(schema, rm, mi, desc, lines, meta, res, cap=12):
    from ..gen import sizex
    gs, dl = adaptive_bounds(rm, cap)
    for shape in values.size_vectors(rm.level, gs, dl):
        inst = values.fill(rm.level, shape, values.ByteGen(0x10))
        placed = codec.place_message(rm, inst)
        for sel, want, args in sizex.cases(rm, placed):
            cid = "z%d" % len(meta)
            lines.append("Z %s %d %d %d %s" % (cid, mi, sel, want, " ".join("%x" % a for a in args)))
            meta[cid] = {"message": rm.name, "desc": desc, "mode": "trait size_bytes sel=%d" % sel, "shape": values.shape_str(shape),
                         "args": args, "want": want}
        res.distinct.add((desc, values.shape_str(shape)))
    if len(res.samples) < 2:
        res.samples.append({"message": desc, "trait_args(counts...,total_data)": args, "expected_size": want})


def _elements(rm, placed):
    """[(start, end, kind)] covering the image: which structural element a truncation point falls into"""
    els = [(0, rm.header.size, "msg-header")]

    def lv(pl, depth, is_entry):
        if pl.bl:
            els.append((pl.block_start, pl.block_end, "entry-block" if is_entry else "root-block"))
        for pg in pl.groups:
            els.append((pg.start, pg.start + pg.hdr, "%s-group-header" % ("flat" if pg.rgroup.flat else "nested")))
            for pe in pg.entries:
                lv(pe, depth + 1, True)
        for pd in pl.data:
            els.append((pd.start, pd.start + pd.rdata.len_size, "data-prefix"))
            if pd.payload:
                els.append((pd.start + pd.rdata.len_size, pd.end, "data-payload"))

    lv(placed, 0, False)
    return els


def _valclass(v, orig, mx):
    if v == 0:
        return "zero"
    if v == mx:
        return "max"
    if v == mx - 1:
        return "max-1"
    if v == mx // 2 + 1:
        return "half"
    if v == orig - 1:
        return "fit-1"
    if v == orig + 1:
        return "fit+1"
    return "one" if v == 1 else "other"


def plan_c06(schema, rm, mi, desc, lines, meta, res, cap=4, pairs=False):
    from ..gen import checkedx as cx_
    gs, dl = adaptive_bounds(rm, cap)
    big = schema.big
    res.counters["shapes"] = res.counters.get("shapes", 0) + 1

    def emit(buf, n, what, cls):
        buf = bytes(buf[:n]) if n <= len(buf) else bytes(buf) + bytes([0xEE]) * (n - len(buf))
        jobs = [(0, 0, cx_.ref_message(rm, buf, n, big))]
        for gi, pg in enumerate(placed.groups):
            if pg.start <= n:
                jobs.append((gi + 1, pg.start, cx_.ref_top_group(rm, gi, buf, pg.start, n, big)))
        for sel, goff, (valid, size) in jobs:
            cid = "s%d" % len(meta)
            lines.append("S %s %d %d %d %d %d %s" % (cid, mi, sel, goff, 1 if valid else 0, size, buf.hex() if buf else "-"))
            meta[cid] = {"message": rm.name, "desc": desc, "mode": "view=%s" % ("message" if sel == 0 else "group"), "shape": values.shape_str(shape),
                         "what": what, "class": cls, "n": n, "buffer": buf.hex(), "want": [valid, size]}
            res.counters["valid" if valid else "invalid"] = res.counters.get("valid" if valid else "invalid", 0) + 1

    for shape in values.size_vectors(rm.level, gs, dl):
        inst = values.fill(rm.level, shape, values.ByteGen(0x10))
        img, placed = codec.encode(schema, rm, inst, fill=0xEE)
        L = len(img)
        els = _elements(rm, placed)
        for n in list(range(0, L + 1)) + [L + 1, L + 9]:
            if n == L:
                cls = "exact"
            elif n > L:
                cls = "trailing-junk"
            else:
                kinds_ = [k for (a, b, k) in els if a <= n < b]
                cls = "cut-in:" + (kinds_[-1] if kinds_ else "gap")
            emit(img, n, "truncate@%d" % n, cls)
        for label, off, size in cx_.header_fields(rm, placed):
            orig = int.from_bytes(img[off:off + size], "big" if big else "little")
            mx = (1 << (8 * size)) - 1
            fam = label.rsplit(".", 1)[1]
            owner = [k for (a, b, k) in els if a <= off < b]
            where = owner[-1] if owner else "?"
            for v in sorted({0, 1, max(orig - 1, 0), min(orig + 1, mx), mx - 1, mx, mx // 2 + 1}):
                if v == orig:
                    continue
                b = bytearray(img)
                b[off:off + size] = v.to_bytes(size, "big" if big else "little")
                cls = "%s(%s,u%d)=%s" % (fam, where.replace("-group-header", "").replace("msg-header", "root"), 8 * size, _valclass(v, orig, mx))
                for n in ((L - 1, L, L + 9) if pairs else (L,)):
                    emit(b, n, "%s=%d(orig %d)@n=%d" % (label, v, orig, n), cls + ("" if n == L else ("@len-1" if n < L else "@len+9")))
                res.counters["corruptions"] = res.counters.get("corruptions", 0) + 1
        res.distinct.add((desc, values.shape_str(shape)))
    if len(res.samples) < 2:
        res.samples.append({"message": desc, "case": lines[-1][:200]})


def plan_c10(schema, rm, mi, desc, lines, meta, res, cap=3, corrupt=True):
    from ..gen import checkedx as cx_
    from ..gen import probex
    gs, dl = adaptive_bounds(rm, cap)
    big = schema.big
    res.counters["shapes"] = res.counters.get("shapes", 0) + 1
    for shape in values.size_vectors(rm.level, gs, dl):
        inst = values.fill(rm.level, shape, values.ByteGen(0x10))
        img, placed = codec.encode(schema, rm, inst, fill=0xEE)
        toks = probex.extent_tokens(rm, placed)
        L = len(img)
        for n in range(0, L + 1):
            cid = "p%d" % len(meta)
            lines.append("P %s %d %d 1 %s %s" % (cid, mi, n, img.hex() if img else "-", toks))
            meta[cid] = {"message": rm.name, "desc": desc, "mode": "truncate", "shape": values.shape_str(shape), "n": n, "image": img.hex()}
        if corrupt:
            for label, off, size in cx_.header_fields(rm, placed):
                orig = int.from_bytes(img[off:off + size], "big" if big else "little")
                mx = (1 << (8 * size)) - 1
                for v in sorted({min(orig + 1, mx), mx, mx // 2 + 1, max(orig - 1, 0)}):
                    if v == orig:
                        continue
                    b = bytearray(img)
                    b[off:off + size] = v.to_bytes(size, "big" if big else "little")
                    cid = "p%d" % len(meta)
                    lines.append("P %s %d %d 0 %s %s" % (cid, mi, L, bytes(b).hex(), toks))
                    meta[cid] = {"message": rm.name, "desc": desc, "mode": "corrupt:" + label.rsplit(".", 1)[1], "shape": values.shape_str(shape), "n": L,
                                 "what": "%s=%d (orig %d)" % (label, v, orig), "image": bytes(b).hex()}
        res.distinct.add((desc, values.shape_str(shape)))
    if len(res.samples) < 2:
        res.samples.append({"message": desc, "image": img.hex(), "extents": toks[:160]})


def choice_strings(maxlen):
    out = []
    for n in range(1, maxlen + 1):
        out += ["".join(t) for t in itertools.product("01234", repeat=n)]
    return out


def plan_traverse(schema, rm, mi, desc, lines, meta, res, cap=4, seeds=(0x10,), maxlen=2, only_tag=False):
    from ..gen import traverse
    gs, dl = adaptive_bounds(rm, cap)
    ex = traverse.TraverseExpect(schema, rm)
    res.counters["shapes"] = res.counters.get("shapes", 0) + 1
    strings = choice_strings(maxlen)
    for shape in values.size_vectors(rm.level, gs, dl):
        for seed in seeds:
            inst = values.fill(rm.level, shape, values.ByteGen(seed))
            img, placed = codec.encode(schema, rm, inst, fill=0xEE)
            for k, cs in enumerate(strings):
                exp = ex.trace(placed, inst, cs)
                for style in ("04" if only_tag else "01234"):
                  # named accessors with every iteration style; by-tag accessors (same expected trace) with two of them
                  for tmode in (("curwt",) if only_tag else ("curw", "curwt") if style in "04" else ("curw",)):
                    cid = "t%d" % len(meta)
                    lines.append("D %s %d %s %s %d c %s %s" % (cid, mi, tmode, img.hex() if img else "-", exp.count("\n"), cs, style))
                    lines.append(exp.rstrip("\n"))
                    meta[cid] = {"message": rm.name, "desc": desc, "mode": "traverse" + ("-by-tag" if tmode == "curwt" else ""), "shape": values.shape_str(shape),
                                 "wrappers": cs, "iteration_style": style, "image": img.hex()}
                    res.counters["calls"] = res.counters.get("calls", 0) + exp.count("^")
            res.distinct.add((desc, values.shape_str(shape)))
    if len(res.samples) < 2:
        res.samples.append({"message": desc, "wrappers": cs, "trace_head": exp.splitlines()[:10]})


# ---------------------------------------------------------------- reporting

def fail_kind(detail):
    return detail.split()[0] if detail else "?"


def default_sig(prefix, detail, meta):
    kind = fail_kind(detail)
    label = ""
    if kind == "ENC-MISMATCH":
        label = detail.split()[1]
        label = label.split(".", 1)[1] if "." in label else label
    elif kind == "OUTCOME":
        label = " ".join(detail.split()[1:2])
    return "%s:%s:%s:%s:%s" % (prefix, kind, meta.get("mode"), label, meta.get("desc"))


def report_pipeline(rep, builts, total, prefix, sig_fn=default_sig, accept_reject=None):
    for b in builts:
        for kind, detail in b.errors:
            if kind == "sbeppc-rejected":
                # a generated-valid schema rejected by sbeppc is C08's business; here it only shrinks coverage
                rep.harness_error("schema %s rejected by sbeppc: %s" % (b.schema.package, detail[:400]))
            elif kind.startswith("driver-compile-error"):
                rep.violation("%s:%s:%s" % (prefix, kind, b.schema.package.rsplit("_", 1)[0]),
                              {"schema": b.schema.package, "msg": "generated driver does not compile: " + detail[-1500:]})
            else:
                rep.harness_error("%s: %s" % (kind, detail[:600]))
    for kind, detail in total.errors:
        if kind == "deadline":
            rep.cap("global deadline reached before %s" % detail)
        else:
            rep.harness_error("%s: %s" % (kind, detail[:600]))
    for cid, detail, meta in total.fails:
        case = dict(meta)
        case["msg_text"] = detail[:4000]
        case["msg"] = "%s [%s %s %s] %s" % (meta.get("desc"), meta.get("mode"), meta.get("shape"), meta.get("cell"), detail[:500])
        rep.violation(sig_fn(prefix, detail, meta), case)
    rep.add("schemas", len(builts))
    rep.add("programs", len(builts))
    for k, v in total.counters.items():
        rep.add(k, v)
    for s in total.samples:
        rep.sample(s)
