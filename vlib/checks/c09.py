"""C09 -- sbeppc is total: any input gives exit 0 or a diagnostic, never a crash / abort / hang / UB / leftovers."""
import itertools
import os
import re
import shutil

from .. import cxx, repo
from ..enum import kinds, shapes, xmlmut
from ..evidence import Report
from ..model import ir


def classify(rc, out, outdir):
    """-> None when the run is allowed, else (signature, short detail)"""
    left = []
    if os.path.isdir(outdir):
        for d, _, files in os.walk(outdir):
            left += [os.path.join(d, f) for f in files]
    if rc is None:
        return "timeout", "no exit within the limit"
    m = re.search(r"ERROR: AddressSanitizer: ([\w-]+)", out)
    if m:
        where = re.search(r"#\d+ 0x[0-9a-f]+ in ([\w:~<>]+)[^\n]*?([\w.]+\.hpp:\d+)", out)
        return "asan:%s@%s" % (m.group(1), where.group(2) if where else "?"), out[-600:]
    m = re.search(r"([\w./-]+\.(?:hpp|cpp|h)):(\d+):\d+: runtime error: ([^\n]+)", out)
    if m:
        return "ubsan:%s:%s" % (os.path.basename(m.group(1)), m.group(2)), m.group(3)[:200]
    m = re.search(r"terminate called after throwing an instance of '([^']+)'(?:\s*what\(\):\s*([^\n]*))?", out)
    if m:
        return "uncaught-exception:%s" % m.group(1), (m.group(2) or "")[:200]
    m = re.search(r"([\w./+-]+):(\d+):[^\n]*Assertion [`']([^\n]*?)' failed", out)
    if m:
        f = os.path.basename(m.group(1))
        return "assertion:%s:%s" % (f, m.group(2) if f.endswith((".hpp", ".cpp")) else m.group(3)[:60]), m.group(3)[:200]
    if rc < 0:
        return "signal:%d" % -rc, out[-300:]
    if rc in (98, 99):
        return "sanitizer-exit:%d" % rc, out[-300:]
    if rc != 0:
        if not re.search(r"Error", out):
            return "nonzero-exit-without-diagnostic", "rc=%d %r" % (rc, out[-200:])
        if left:
            return "files-left-after-rejection", "rc=%d, %d files, e.g. %s" % (rc, len(left), os.path.relpath(left[0], outdir))
    return None


RES_BASE = """<?xml version="1.0" encoding="UTF-8"?>
<sbe:messageSchema xmlns:sbe="http://fixprotocol.io/2016/sbe" package="res" id="1" version="0" byteOrder="littleEndian">
<types>
<type name="first" primitiveType="uint8"/>
<composite name="messageHeader">
<type name="blockLength" primitiveType="uint16"/>
<type name="templateId" primitiveType="uint16"/>
<type name="schemaId" primitiveType="uint16"/>
<type name="version" primitiveType="uint16"/>
%(hdr)s
</composite>
<composite name="groupSizeEncoding">
<type name="blockLength" primitiveType="uint16"/>
<type name="numInGroup" primitiveType="uint16"/>
%(dim)s
</composite>
<composite name="cmp">
<type name="x" primitiveType="uint8"/>
%(cmp)s
</composite>
%(pub)s
</types>
<sbe:message name="m" id="1"%(mattr)s>
<field name="f" id="1" type="first"/>
<field name="c" id="2" type="cmp"/>
%(fld)s
<group name="g" id="10"%(gattr)s><field name="x" id="11" type="uint8"/></group>
</sbe:message>
</sbe:messageSchema>
"""


def resource_inputs():
    out = []
    for big in ("70000", "4294967295"):
        k = '<type name="k" primitiveType="char" presence="constant" length="%s">abc</type>' % big
        blank = {"hdr": "", "dim": "", "cmp": "", "pub": "", "fld": "", "mattr": "", "gattr": ""}
        for slot in ("hdr", "dim", "cmp"):
            d = dict(blank)
            d[slot] = k
            out.append(("char constant length=%s in %s composite" % (big, slot), RES_BASE % d))
        d = dict(blank)
        d["pub"], d["fld"] = k, '<field name="kf" id="3" type="k"/>'
        out.append(("public char constant length=%s used by a field" % big, RES_BASE % d))
        d = dict(blank)
        d["pub"], d["fld"] = '<type name="arr" primitiveType="char" length="%s"/>' % big, '<field name="af" id="3" type="arr"/>'
        out.append(("char array length=%s used by a field" % big, RES_BASE % d))
        d = dict(blank)
        d["mattr"] = ' blockLength="%s"' % big
        out.append(("message blockLength=%s" % big, RES_BASE % d))
        d = dict(blank)
        d["gattr"] = ' blockLength="%s"' % big
        out.append(("group blockLength=%s" % big, RES_BASE % d))
    return out


def run(tier, replay=None):
    rep = Report("C09", tier, "exploration")
    exe = repo.sbeppc("san")
    wd = cxx.workdir("c09-" + tier)
    quick = tier == "quick"
    tdir = os.path.join(repo.REPO, "test", "schemas")
    seeds = [("big_endian_schema", open(os.path.join(tdir, "big_endian_schema.xml")).read()),
             ("traits_test_schema", open(os.path.join(tdir, "traits_test_schema.xml")).read())]
    k = kinds.kinds_schema()
    if quick:
        k.msgs = [m for m in k.msgs if m.name in ("consts", "comps", "mixed")]
        k.types = [t for t in k.types if not t.name.startswith(("TX_", "OX_", "O_")) or t.name in ("O_float", "TX_int32")]
        k.msgs[0].fields = [f for f in k.msgs[0].fields]
    seeds.append(("kinds", ir.to_xml(k)))
    cat, _ = shapes.catalogue("quick")[4]
    cat.msgs = cat.msgs[:3 if quick else 12]
    seeds.append(("catalogue", ir.to_xml(cat)))
    # header / dimension layouts, including <ref>-typed header members
    from ..enum import headers
    hs = headers.header_schemas()
    for i in ([28] if quick else range(0, len(hs), 6)):
        seeds.append(("header-layout-%d" % i, ir.to_xml(hs[i][0])))
    ds, _ = headers.dim_schemas(with_ref_num=True)[0]
    if quick:
        ds.msgs = ds.msgs[-14:]     # incl. the <ref>-typed blockLength / numInGroup dimensions
    seeds.append(("dimension-layouts", ir.to_xml(ds)))
    if not quick:
        for n in ("test_schema", "test_schema2"):
            seeds.append((n, open(os.path.join(tdir, n + ".xml")).read()))
        for f in sorted(os.listdir(os.path.join(repo.REPO, "test", "naming_test"))):
            if f.endswith(".xml"):
                seeds.append(("naming:" + f[:-4], open(os.path.join(repo.REPO, "test", "naming_test", f)).read()))
    rep.set("bounds", {"seeds": [s for s, _ in seeds],
                       "mutations": "every single structure-aware mutation at every node: attribute delete / set to each of %d tokens / add every absent attribute of the 25-name vocabulary with 1-6 values / add text to text-less elements / add a minimal child of each of the 14 known tags, first and last (quick: additions on the seeds traits_test_schema and kinds only) / retarget every reference attribute to every named entity; text garble; element delete / duplicate / swap / re-parent (down, up) / rename to each of %d known tags / empty; truncation at every line end"
                                    % (len(xmlmut.TOKENS_QUICK if quick else xmlmut.TOKENS), len(xmlmut.TAGS)),
                       "argv": "every argument vector of length <= %d over {--schema-name, --output-dir, --inject-include, --version, --help, --, -x, '', good.xml, missing.xml, dir/}" % (3 if quick else 4),
                       "includes": "self include, mutual include, missing file, directory, include of a valid file; every include graph over a root and two fragments with <= 2 includes each over %d targets" % (3 if quick else 5), "raw_inputs": [n for n, _ in xmlmut.RAW_INPUTS],
                       "included_fragment": "the kinds seed with its <types> moved into an included file: every single mutation of that file (quick token set)",
                       "resource": "char constants / arrays / blockLength with declared sizes 70000 and 4294967295 in a header, dimension, ordinary composite and as public type; sbeppc-dbg under a 1.5 GB address-space limit, 300 s limit",
                       "build": "clang++ -O1 ASan+UBSan, sbeppc's own asserts and _GLIBCXX_ASSERTIONS on; 20 s limit per run"})
    jobs = []    # (label, opclass, argv builder)
    cases_dir = os.path.join(wd, "cases")
    shutil.rmtree(cases_dir, ignore_errors=True)
    os.makedirs(cases_dir)
    n = 0
    for si, (sname, text) in enumerate(seeds):
        # the unmutated seed must be accepted (otherwise the neighbourhood is not around a valid schema)
        for desc, opclass, xml in itertools.chain([("seed", "seed", text)], xmlmut.mutants(text, quick=quick, rich_add=(not quick and si < 3), add=(not quick or si in (1, 2)))):
            n += 1
            jobs.append(("%s: %s" % (sname, desc), opclass, "xml", xml.encode("utf-8", "surrogatepass") if isinstance(xml, str) else xml, None))
    for name, raw in xmlmut.RAW_INPUTS:
        jobs.append(("raw: " + name, "raw-input", "xml", raw, None))
    # include graphs
    good = seeds[0][1]
    incfile = '<?xml version="1.0"?><include href="%s"/>'
    inc = [("included file includes itself", {"a.xml": '<?xml version="1.0"?><messageSchema package="p" id="1" version="0"><include href="b.xml"/></messageSchema>', "b.xml": incfile % "b.xml"}),
           ("included files include each other", {"a.xml": '<?xml version="1.0"?><messageSchema package="p" id="1" version="0"><include href="b.xml"/></messageSchema>',
                                                  "b.xml": incfile % "c.xml", "c.xml": incfile % "./b.xml"}),
           ("included file includes the root schema", {"a.xml": '<?xml version="1.0"?><messageSchema package="p" id="1" version="0"><include href="b.xml"/></messageSchema>', "b.xml": incfile % "a.xml"}),
           ("file name with braces", {"a.xml": '<?xml version="1.0"?><messageSchema package="p" id="1" version="0"><include href="{x}.xml"/></messageSchema>'}),
           ("self include", {"a.xml": '<?xml version="1.0"?><messageSchema package="p" id="1" version="0"><include href="a.xml"/></messageSchema>'}),
           ("mutual include", {"a.xml": '<?xml version="1.0"?><messageSchema package="p" id="1" version="0"><include href="b.xml"/></messageSchema>',
                               "b.xml": '<?xml version="1.0"?><messageSchema package="q" id="1" version="0"><include href="a.xml"/></messageSchema>'}),
           ("missing include", {"a.xml": '<?xml version="1.0"?><messageSchema package="p" id="1" version="0"><include href="nope.xml"/></messageSchema>'}),
           ("include of a directory", {"a.xml": '<?xml version="1.0"?><messageSchema package="p" id="1" version="0"><include href="."/></messageSchema>'}),
           ("include without href", {"a.xml": '<?xml version="1.0"?><messageSchema package="p" id="1" version="0"><include/></messageSchema>'}),
           ("include of the same valid schema twice", {"a.xml": '<?xml version="1.0"?><messageSchema package="p" id="1" version="0"><include href="g.xml"/><include href="g.xml"/></messageSchema>', "g.xml": good}),
           ("include of a valid schema", {"a.xml": '<?xml version="1.0"?><messageSchema package="p" id="1" version="0"><include href="g.xml"/></messageSchema>', "g.xml": good})]
    # every raw input also as the *included* file (its own parser, its own line table) and as a fragment next to a valid one
    for rname, raw in xmlmut.RAW_INPUTS:
        if len(raw) < 100000:
            inc.append(("include of raw input `%s`" % rname, {"a.xml": '<?xml version="1.0"?><messageSchema package="p" id="1" version="0"><include href="r.xml"/></messageSchema>', "r.xml": raw}))
    for name, files in inc:
        jobs.append(("include: " + name, "include-graph", "files", files, None))
    # every include graph over a root and two fragment files with up to two includes each (cycles through a first, a
    # second, or both includes; diamonds; repeated includes)
    targets = ["b.xml", "c.xml", "g.xml"] + ([] if quick else ["a.xml", "./c.xml"])
    lists = [()] + [(t,) for t in targets] + list(itertools.product(targets, repeat=2))
    frag = lambda incs: '<?xml version="1.0"?>' + "".join('<include href="%s"/>' % t for t in incs) if incs else '<?xml version="1.0"?><types/>'
    for bl in lists:
        for cl in lists:
            files = {"a.xml": '<?xml version="1.0"?><messageSchema package="p" id="1" version="0"><include href="b.xml"/><include href="c.xml"/></messageSchema>',
                     "b.xml": frag(bl), "c.xml": frag(cl), "g.xml": good}
            jobs.append(("include-graph: b->%s c->%s" % (list(bl), list(cl)), "include-graph-enum", "files", files, None))
    # diagnostics located in an *included* file: the types of the kinds seed moved into a fragment that the root includes;
    # every single mutation of the fragment (the validator reports most of them after the include has been merged, i.e.
    # with a location that points into a file whose parser is gone -- mutant c09d kept a dangling view there)
    import xml.etree.ElementTree as ET
    kroot = ET.fromstring(ir.to_xml(k))
    ktypes = [e for e in kroot if e.tag.endswith("types")][0]
    frag = '<?xml version="1.0" encoding="UTF-8"?>\n' + ET.tostring(ktypes, encoding="unicode")
    idx = list(kroot).index(ktypes)
    kroot.remove(ktypes)
    kroot.insert(idx, ET.Element("include", {"href": "t.xml"}))
    root_xml = '<?xml version="1.0" encoding="UTF-8"?>\n' + ET.tostring(kroot, encoding="unicode")
    jobs.append(("included-fragment: seed", "seed", "files", {"a.xml": root_xml, "t.xml": frag}, None))
    for desc, opclass, xml in xmlmut.mutants(frag, quick=True, add=False):
        if isinstance(xml, str):
            jobs.append(("included-fragment: " + desc, "included:" + opclass, "files", {"a.xml": root_xml, "t.xml": xml}, None))
    # declared sizes that make the legitimate output huge: a char constant is emitted as a literal with one escape per
    # element, so its cost is linear in `length`; under a 1.5 GB address-space limit the allocation fails, which has to end
    # in a diagnostic like any other rejection (found by the c09c agent's notes: std::bad_alloc escaped main())
    for name, xml in resource_inputs():
        jobs.append(("resource: " + name, "resource", "res", xml, None))
    # argv
    alphabet = ["--schema-name", "--output-dir", "--inject-include", "--version", "--help", "--", "-x", "", "good.xml", "missing.xml", "dir/"]
    for ln in range(0, (3 if quick else 4) + 1):
        for av in itertools.product(alphabet, repeat=ln):
            jobs.append(("argv: %r" % (av,), "argv", "argv", None, list(av)))

    import time
    deadline = time.time() + (25 * 60 if quick else 75 * 60)
    SKIP = ("skipped-after-deadline", "")

    def one(item, limit=20):
        idx, (label, opclass, kind, payload, av) = item
        if time.time() > deadline and limit == 20:
            return label, opclass, 0, SKIP, ""
        d = os.path.join(cases_dir, "c%d" % idx)
        os.makedirs(d)
        out = os.path.join(d, "out")
        try:
            if kind == "xml":
                open(os.path.join(d, "in.xml"), "wb").write(payload)
                cmd = [exe, "--output-dir", out, "in.xml"]
            elif kind == "res":
                open(os.path.join(d, "in.xml"), "w").write(payload)
                cmd = ["prlimit", "--as=1500000000", repo.sbeppc("dbg"), "--output-dir", out, "in.xml"]
                rc, txt = cxx.sh(cmd, timeout=15 * limit, cwd=d)
                res = classify(rc, txt, out)
                if res and res[0] == "files-left-after-rejection" and "std::bad_alloc" in txt and "length=4294967295" in label:
                    res = ("files-left-after-out-of-memory:char-constant-length-4294967295", res[1])
                return label, opclass, rc, res, (txt or "")[-300:]
            elif kind == "files":
                for fn, tx in payload.items():
                    open(os.path.join(d, fn), "wb" if isinstance(tx, bytes) else "w").write(tx)
                cmd = [exe, "--output-dir", out, "a.xml"]
            else:
                open(os.path.join(d, "good.xml"), "w").write(good)
                os.makedirs(os.path.join(d, "dir"))
                cmd = [exe] + av
                out = d   # whatever it writes lands in the case directory
            env = dict(os.environ)
            env.update(repo.SAN_ENV)
            rc, txt = cxx.sh(cmd, timeout=limit, cwd=d, env=env)
            if kind == "argv":
                # leftovers: anything besides the two inputs after a rejection
                bad = None
                res = classify(rc, txt, os.path.join(d, "nonexistent"))
                if res is None and rc not in (0, None):
                    extra = [f for f in os.listdir(d) if f not in ("good.xml", "dir")]
                    if extra or os.listdir(os.path.join(d, "dir")):
                        res = ("files-left-after-rejection", "argv leaves %s" % extra)
            else:
                res = classify(rc, txt, out)
            return label, opclass, rc, res, (txt or "")[-300:]
        finally:
            shutil.rmtree(d, ignore_errors=True)

    outcomes = {}
    accepted = rejected = 0
    results = list(cxx.pmap(one, list(enumerate(jobs))))
    # a run that did not exit within the limit while 16 workers (and whatever else) load the machine is re-run alone with
    # a 15x limit before it is called a hang; only the second verdict counts
    slow = [i for i, r in enumerate(results) if r[3] is not None and r[3][0] == "timeout"]
    for i in slow[:40]:
        shutil.rmtree(os.path.join(cases_dir, "c%d" % i), ignore_errors=True)
        results[i] = one((i, jobs[i]), limit=300)
    if slow:
        rep.assume("%d run(s) exceeded the 20 s limit in the parallel sweep and were re-run alone with a 300 s limit; %d still did not exit"
                   % (len(slow), sum(1 for i in slow if results[i][3] is not None and results[i][3][0] == "timeout")))
    nskip = sum(1 for r in results if r[3] is SKIP)
    if nskip:
        rep.cap("global deadline reached: %d of %d runs not executed (jobs are ordered seeds -> raw inputs -> include graphs -> included fragment -> resource -> argv; the executed prefix is complete)" % (nskip, len(results)))
        rep.exhaustive = False
        results = [r for r in results if r[3] is not SKIP]
    for label, opclass, rc, res, tail in results:
        outcomes[(opclass.split(":")[0], "ok" if res is None else res[0].split(":")[0])] = outcomes.get((opclass.split(":")[0], "ok" if res is None else res[0].split(":")[0]), 0) + 1
        if res is None:
            if rc == 0:
                accepted += 1
            else:
                rejected += 1
            if label.endswith(": seed") and rc != 0:
                rep.assume("seed %s is itself rejected by sbeppc (its neighbourhood is still explored): %s" % (label, tail[-120:]))
            continue
        sig, detail = res
        rep.violation(sig, {"input": label, "operator": opclass, "rc": rc, "msg": "%s -> %s (%s)" % (label, sig, detail)})
    rep.set("evaluations", len(results))
    rep.set("accepted", accepted)
    rep.set("rejected_with_diagnostic", rejected)
    rep.set("distinct_nontrivial", len({(j[1]) for j in jobs}))
    rep.set("outcome_split", {"%s/%s" % k: v for k, v in sorted(outcomes.items())})
    rep.set("rule", "one evaluation = one sbeppc run on one mutant / raw input / include graph / argument vector; distinct = distinct (operator, element.attribute) classes; "
                    "allowed outcomes: exit 0, or non-zero exit with an `Error` line and no file left in the output directory")
    rep.sample({"seed": seeds[0][0], "mutation": jobs[5][0], "operator": jobs[5][1]})
    rep.assume("the property's 'all byte strings' is infinite: what is claimed is the complete single-mutation neighbourhood of the seeds over the stated operator and token sets")
    if rejected == 0 and not rep.violations:
        rep.harness_error("vacuous: nothing was rejected")
    return rep.finish()
