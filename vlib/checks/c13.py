"""C13 -- <data> views behave like a vector bounded by their buffer (explicit-state, closed state space)."""
from .. import cxx, libcheck
from ._lib import lib_run


def run(tier, replay=None):
    cells = cxx.QUICK_CELLS if tier == "quick" else cxx.FOUR_CELLS
    cap = 4 if tier == "quick" else 5
    vs = []
    for cell in cells:
        for schema, big in (("lib_le", 0), ("lib_be", 1)):
            for bsel in (0, 1):
                vs.append(libcheck.Variant(
                    "%s-%s-b%d-cap%d" % (cxx.cell_name(cell), schema, bsel, cap), cell,
                    ["SBEPP_ENABLE_ASSERTS_WITH_HANDLER", "SCHEMA=" + schema, "BIG=%d" % big, "CAP=%d" % cap,
                     "BYTESEL=%d" % bsel]))
    return lib_run(
        "C13", tier, "c13", "c13_data.cpp", vs,
        {"capacity": cap, "alphabet": "{0, 0x61, 0xE2 | -30}", "length_types": ["uint8", "uint16", "uint32", "uint64"],
         "byte_orders": ["little", "big"], "element_types": ["char", "uint8", "int8"],
         "byte_types": ["char", "unsigned char"],
         "ops": "push_back pop_back clear insert(pos,v) insert(pos,cnt,v) insert(pos,first,last)[forward+input] insert(pos,ilist) erase(pos) erase(first,last) resize(n) resize(n,v) resize(n,default_init) assign(cnt,v) assign(first,last)[forward+input] assign(ilist) assign_string assign_range[vector,string,string_view] + all read accessors"},
        12,
        [{"state": "[0,97]", "op": "erase(1,2)", "oracle": "std::vector after the same op: size prefix, payload, returned iterator; bytes outside prefix+max(old,new) payload unchanged; outcome OK (no HANDLER/FAULT/TIMEOUT)"}],
        ["long random operation sequences beyond the closed small-state space are not run (sampling is outside this family)",
         "resize(n, default_init) leaves new elements unspecified; only the old ones are compared",
         "every state of the bounded space is a start state, so depth is irrelevant: the transition relation is covered completely"],
        replay=replay)
