"""C13 -- <data> views behave like a vector bounded by their buffer (explicit-state, closed state space)."""
from .. import cxx, libcheck
from ..evidence import Report

SRC = "c13_data.cpp"


def variants(tier):
    cells = cxx.QUICK_CELLS if tier == "quick" else cxx.FOUR_CELLS
    cap = 4 if tier == "quick" else 5
    vs = []
    for cell in cells:
        for schema, big in (("lib_le", 0), ("lib_be", 1)):
            for bsel in (0, 1):
                vs.append(libcheck.Variant(
                    "%s-%s-b%d-cap%d" % (cxx.cell_name(cell), schema, bsel, cap), cell,
                    ["SBEPP_ENABLE_ASSERTS_WITH_HANDLER", "SCHEMA=" + schema, "BIG=%d" % big, "CAP=%d" % cap,
                     "BYTESEL=%d" % bsel]))
    return vs, cap


def run(tier, replay=None):
    rep = Report("C13", tier, "model_checking")
    vs, cap = variants(tier)
    if replay:
        vs = [v for v in vs if v.tag == replay["case"]["variant"]] or vs
    rep.set("bounds", {"capacity": cap, "alphabet": "{0, 0x61, 0xE2/-30}", "cells": sorted({cxx.cell_name(v.cell) for v in vs}),
                       "length_types": ["uint8", "uint16", "uint32", "uint64"], "byte_orders": ["little", "big"],
                       "element_types": ["char", "uint8", "int8"], "byte_types": ["char", "unsigned char"]})
    results = libcheck.build_and_run(rep, "c13", SRC, vs)
    states = transitions = configs = 0
    for v, lines, dt in results:
        fails = [l for l in lines if l[0] == "FAIL"]
        for l in lines:
            if l[0] == "COMPILE-ERROR":
                rep.violation("compile-error:" + v.tag.split("-lib")[0],
                              {"variant": v.tag, "msg": "explorer does not compile: " + l[1][-800:]})
            elif l[0] == "RUN-ERROR":
                rep.harness_error("%s: %s" % (v.tag, l[1:]))
            elif l[0] == "STATS":
                kv = dict(x.split("=") for x in l[2:])
                configs += 1
                states += int(kv["states"])
                transitions += int(kv["transitions"]) + int(kv["reads"])
                rep.add("distinct_successor_states", int(kv["successors"]))
                if int(kv["successors_outside_state_set"]):
                    rep.harness_error("%s: state space not closed (%s)" % (l[1], kv))
                if int(kv["successors"]) != int(kv["states"]):
                    # every state must be reachable as a successor when nothing failed
                    if int(kv["failures"]) == 0:
                        rep.harness_error("%s: successors != states without failures" % l[1])
                if len(rep.cov["samples"]) < 3:
                    rep.sample({"config": l[1], "stats": kv})
        if fails:
            # determinism: the same variant must fail the same way when re-run alone
            v2, lines2, _ = libcheck.rerun("c13", SRC, v)
            f2 = [l for l in lines2 if l[0] == "FAIL"]
            if f2 != fails:
                rep.harness_error("%s: failures not reproducible on re-run" % v.tag)
                continue
        for l in fails:
            _, sig, cfg, state, op, kind, detail = (l + [""] * 7)[:7]
            rep.violation(sig, {"variant": v.tag, "config": cfg, "state": state, "op": op, "kind": kind,
                                "msg": "%s on state %s of %s: %s %s" % (op, state, cfg, kind, detail)})
    rep.sample({"state": "[0,97]", "op": "erase(1,2)", "oracle": "std::vector after the same op; prefix, payload, returned iterator, bytes outside"})
    rep.set("states", states)
    rep.set("transitions", transitions)
    rep.set("traces_validated_against_impl", transitions)
    rep.set("configurations", configs)
    if configs != len(vs) * 12 and not rep.violations:
        rep.harness_error("expected %d configurations, saw %d" % (len(vs) * 12, configs))
    rep.assume("long random operation sequences beyond the closed small-state space are not run (sampling is outside this family)")
    rep.assume("resize(n, default_init) leaves new elements unspecified; only the old ones are compared")
    return rep.finish()
