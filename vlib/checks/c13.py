"""C13 -- <data> views behave like a vector bounded by their buffer (explicit-state, closed state space)."""
from .. import cxx, libcheck
from ._lib import lib_run


def run(tier, replay=None):
    cells = cxx.CODEC_CELLS if tier == "quick" else cxx.FOUR_CELLS
    cap = 4 if tier == "quick" else 5
    vs = []
    for cell in cells:
        for schema, big in (("lib_le", 0), ("lib_be", 1)):
            for bsel in (0, 1):
                vs.append(libcheck.Variant(
                    "%s-%s-b%d-cap%d" % (cxx.cell_name(cell), schema, bsel, cap), cell,
                    ["SBEPP_ENABLE_ASSERTS_WITH_HANDLER", "SCHEMA=" + schema, "BIG=%d" % big, "CAP=%d" % cap,
                     "BYTESEL=%d" % bsel]))
    # release configuration (SBEPP_DISABLE_ASSERTS): the operations themselves must not depend on the checks being compiled in
    for cell in (cells[:1] if tier == "quick" else cells):
        for schema, big in (("lib_le", 0),) if tier == "quick" else (("lib_le", 0), ("lib_be", 1)):
            vs.append(libcheck.Variant("rel-%s-%s-b0-cap%d" % (cxx.cell_name(cell), schema, cap), cell,
                                       ["SBEPP_DISABLE_ASSERTS", "SCHEMA=" + schema, "BIG=%d" % big, "CAP=%d" % cap, "BYTESEL=0"]))
    # constant evaluation (C++20 and later): the closed state space with capacity 5 inside static_asserts
    from ..evidence import Report
    rep = Report("C13", tier, "model_checking")
    ce_cells = [("g++", "c++20"), ("clang++", "c++20")] if tier == "quick" else [("g++", "c++20"), ("g++", "c++23"), ("clang++", "c++20"), ("clang++", "c++2b")]
    ce_cells = [c for c in ce_cells if not cxx.cell_miscompiles_is_constant_evaluated(c)]
    ce_types = [("uint16_t", "little"), ("uint8_t", "big")] if tier == "quick" else \
        [(t, e) for t in ("uint8_t", "uint16_t", "uint32_t", "uint64_t") for e in ("little", "big")]
    cvs = [libcheck.Variant("ce-%s-%s-%s" % (cxx.cell_name(c), t, e), c, ["LEN_T=sbepp::" + t, "ENDIAN=sbepp::endian::" + e], opt="-O1",
                            extra=(["-fconstexpr-ops-limit=4000000000", "-fconstexpr-loop-limit=10000000"] if c[0] == "g++" else ["-fconstexpr-steps=2000000000"]),
                            compile_sig="constexpr-data-ops:static-assert-or-not-constant")
           for c in ce_cells for t, e in ce_types]
    lib_run("C13", tier, "c13ce", "c13_constexpr.cpp", cvs, {}, 1, [], [], replay=replay, rep=rep, finish=False)
    ce_tr, ce_st = rep.cov.get("transitions", 0), rep.cov.get("states", 0)
    r = lib_run(
        "C13", tier, "c13", "c13_data.cpp", vs,
        {"capacity": cap, "alphabet": "{0, 0x61, 0xE2 | -30}", "length_types": ["uint8", "uint16", "uint32", "uint64"],
         "byte_orders": ["little", "big"], "element_types": ["char", "uint8", "int8"],
         "byte_types": ["char", "unsigned char"],
         "ops": "push_back pop_back clear insert(pos,v) insert(pos,cnt,v) insert(pos,first,last)[forward+input] insert(pos,ilist) erase(pos) erase(first,last) resize(n) resize(n,v) resize(n,default_init) assign(cnt,v) assign(first,last)[forward+input] assign(ilist) assign_string assign_range[vector,string,string_view] + all read accessors"},
        12,
        [{"state": "[0,97]", "op": "erase(1,2)", "oracle": "std::vector after the same op: size prefix, payload, returned iterator; bytes outside prefix+max(old,new) payload unchanged; outcome OK (no HANDLER/FAULT/TIMEOUT)"}],
        ["long random operation sequences beyond the closed small-state space are not run (sampling is outside this family)",
         "resize(n, default_init) leaves new elements unspecified; only the old ones are compared",
         "every state of the bounded space is a start state, so depth is irrelevant: the transition relation is covered completely"],
        replay=replay, rep=rep, finish=False)
    rep.cov["bounds"]["constant_evaluation"] = "C++20+: contents over {x,y,z} of length <= 4, capacity 5, every operation/argument tuple of the list above that is constexpr (no input-iterator overloads), length types %s, inside static_asserts" % sorted({t for t, _ in ce_types})
    rep.set("constexpr_transitions", ce_tr)
    rep.set("constexpr_cells", [cxx.cell_name(c) for c in ce_cells])
    rep.set("transitions", rep.cov.get("transitions", 0) + ce_tr)
    rep.set("states", rep.cov.get("states", 0) + ce_st)
    rep.set("traces_validated_against_impl", rep.cov.get("transitions", 0))
    return rep.finish()
