"""C20 -- sbeppc's exit status is truthful and its output deterministic (fault enumeration over every output I/O call)."""
import filecmp
import hashlib
import os
import re
import shutil
import subprocess

from .. import cxx, repo
from ..enum import shapes
from ..evidence import Report
from ..model import ir

ERRNO = {"EACCES": 13, "ENOSPC": 28, "EIO": 5, "EMFILE": 24}
FAULTS = {"mkdir": [("EACCES", 0), ("ENOSPC", 0)], "fopen": [("EACCES", 0), ("EMFILE", 0)], "fopen64": [("EACCES", 0), ("EMFILE", 0)],
          "open": [("EACCES", 0), ("EMFILE", 0)], "open64": [("EACCES", 0), ("EMFILE", 0)], "openat": [("EACCES", 0), ("EMFILE", 0)],
          "write": [("ENOSPC", 0), ("EIO", 0), ("ENOSPC", 1)], "writev": [("ENOSPC", 0), ("EIO", 0), ("ENOSPC", 1)],
          "fclose": [("EIO", 0)], "close": [("EIO", 0)]}


def build_shim():
    d = repo.cache_dir("shim")
    src = os.path.join(cxx.CXXDIR, "ioshim.c")
    so = os.path.join(d, "ioshim-%s.so" % cxx.src_digest(open(src, "rb").read()))
    if not os.path.exists(so):
        rc, out = cxx.sh(["gcc", "-shared", "-fPIC", "-O1", "-o", so + ".tmp", src, "-ldl"])
        if rc != 0:
            raise SystemExit("HARNESS-ERROR: shim does not build: " + out)
        os.replace(so + ".tmp", so)
    return so


def tree_digest(root):
    h = {}
    for d, _, files in os.walk(root):
        for f in files:
            p = os.path.join(d, f)
            h[os.path.relpath(p, root)] = hashlib.sha256(open(p, "rb").read()).hexdigest()
    return h


def run_sbeppc(exe, schema, outdir, env_extra=None, cwd=None):
    env = dict(os.environ)
    if env_extra:
        env.update(env_extra)
    r = subprocess.run([exe, "--output-dir", outdir, schema], stdout=subprocess.PIPE, stderr=subprocess.STDOUT, env=env, cwd=cwd, timeout=120)
    return r.returncode, r.stdout.decode("utf-8", "replace")


def run(tier, replay=None):
    rep = Report("C20", tier, "fault_enumeration")
    exe = repo.sbeppc("dbg")
    so = build_shim()
    wd = cxx.workdir("c20-" + tier)
    schemas = [os.path.join(repo.REPO, "test", "schemas", "big_endian_schema.xml"),
               os.path.join(repo.REPO, "test", "schemas", "test_schema2.xml")]
    if tier != "quick":
        schemas.append(os.path.join(repo.REPO, "test", "schemas", "test_schema.xml"))
    cat_schema, _ = shapes.catalogue("quick")[0]
    if tier == "quick":
        cat_schema.msgs = cat_schema.msgs[:6]
    cx = os.path.join(wd, "cat.xml")
    open(cx, "w").write(ir.to_xml(cat_schema))
    schemas.append(cx)
    rep.set("bounds", {"schemas": [os.path.basename(s) for s in schemas],
                       "faults": "every I/O call that touches the output tree (k-th mkdir / fopen / write / writev / fclose for every k) x {mkdir: EACCES, ENOSPC; open: EACCES, EMFILE; write: ENOSPC, EIO, short write then ENOSPC; close: EIO}",
                       "determinism": "fault-free run twice into fresh directories, again into the populated one, from another working directory; populated start states: for every generated file x {file + stale tail, prefix of the file, empty file, same size other bytes} in an otherwise identical older output"})
    runs = 0
    for sx in schemas:
        name = os.path.splitext(os.path.basename(sx))[0]
        base = os.path.join(wd, name)
        shutil.rmtree(base, ignore_errors=True)
        os.makedirs(base)
        # baseline under the shim (no fault): the call log defines the fault space
        out0 = os.path.join(base, "baseline")
        log0 = os.path.join(base, "baseline.log")
        rc, txt = run_sbeppc(exe, sx, out0, {"LD_PRELOAD": so, "SHIM_PREFIX": out0, "SHIM_LOG": log0})
        runs += 1
        if rc != 0:
            rep.harness_error("baseline run of %s failed: rc=%s %s" % (name, rc, txt[-300:]))
            continue
        calls = [l.split() for l in open(log0).read().splitlines()]
        want = tree_digest(out0)
        if not want:
            rep.harness_error("baseline of %s produced no files" % name)
            continue
        # the shim must own all output I/O: compare with strace of the same fault-free run
        so_dir = os.path.join(base, "strace-out")
        st_log = os.path.join(base, "strace.log")
        try:
            subprocess.run(["strace", "-f", "-e", "trace=mkdir,mkdirat,openat,open,creat,write,writev,pwrite64", "-o", st_log, exe, "--output-dir", so_dir, sx],
                           stdout=subprocess.DEVNULL, stderr=subprocess.DEVNULL, timeout=120)
            st = open(st_log).read()
            n_mk = len(re.findall(r"mkdir(?:at)?\([^\n]*" + re.escape(so_dir) + r"[^\n]*= 0", st))
            fds = set()
            n_open = n_wr = 0
            for l in st.splitlines():
                m = re.search(r"open(?:at)?\((?:AT_FDCWD, )?\"(" + re.escape(so_dir) + r"[^\"]*)\", ([A-Z_|]+)[^\n]*= (\d+)", l)
                if m and ("O_WRONLY" in m.group(2) or "O_RDWR" in m.group(2)):
                    n_open += 1
                    fds.add(m.group(3))
                    continue
                m = re.search(r"(?:write|writev|pwrite64)\((\d+),", l)
                if m and m.group(1) in fds:
                    n_wr += 1
            s_mk = sum(1 for c in calls if c[1] == "mkdir" and c[-1] == "0")
            s_open = sum(1 for c in calls if c[1].startswith(("fopen", "open")))
            s_wr = sum(1 for c in calls if c[1].startswith("write"))
            rep.set("strace_vs_shim_" + name, {"mkdir": [n_mk, s_mk], "open_for_write": [n_open, s_open], "writes": [n_wr, s_wr]})
            if (n_mk, n_open, n_wr) != (s_mk, s_open, s_wr):
                rep.harness_error("%s: the shim does not see the same output I/O as strace: strace (mkdir,open,write)=%s shim=%s"
                                  % (name, (n_mk, n_open, n_wr), (s_mk, s_open, s_wr)))
        except (OSError, subprocess.TimeoutExpired) as ex:
            rep.assume("strace cross-check not available: %s" % ex)
        # fault enumeration
        jobs = []
        for c in calls:
            k, call = int(c[0]), c[1].replace("(short)", "")
            for en, short in FAULTS.get(call, [("EIO", 0)]):
                jobs.append((k, call, en, short))

        def one(job):
            k, call, en, short = job
            od = os.path.join(base, "f_%d_%s_%d" % (k, en, short))
            shutil.rmtree(od, ignore_errors=True)
            rc, txt = run_sbeppc(exe, sx, od, {"LD_PRELOAD": so, "SHIM_PREFIX": od, "SHIM_FAIL_K": str(k), "SHIM_ERRNO": str(ERRNO[en]),
                                               "SHIM_SHORT": str(short)})
            got = tree_digest(od) if os.path.isdir(od) else {}
            shutil.rmtree(od, ignore_errors=True)
            return job, rc, txt, got

        for (k, call, en, short), rc, txt, got in cxx.pmap(one, jobs):
            runs += 1
            fault = "%s%s" % (en, "+short" if short else "")
            rep.distinct("distinct_nontrivial", (name, k, fault))
            if rc == 0:
                if got != want:
                    missing = sorted(set(want) - set(got))
                    differ = sorted(f for f in want if f in got and got[f] != want[f])
                    rep.violation("exit-0-although-%s-failed:%s" % (call, fault),
                                  {"schema": name, "k": k, "call": call, "fault": fault,
                                   "msg": "%s: call #%d (%s) failed with %s, sbeppc exited 0; missing=%s truncated/different=%s"
                                          % (name, k, call, fault, missing[:3], differ[:3])})
            elif rc < 0:
                rep.violation("killed-by-signal:%s:%s" % (call, fault), {"schema": name, "k": k, "msg": "%s: call #%d (%s) %s -> signal %d" % (name, k, call, fault, -rc)})
            elif not re.search(r"rror", txt):
                rep.violation("nonzero-exit-without-diagnostic:%s:%s" % (call, fault),
                              {"schema": name, "k": k, "msg": "%s: call #%d (%s) %s -> exit %d, output %r" % (name, k, call, fault, rc, txt[-200:])})
        # determinism
        d1, d2 = os.path.join(base, "det1"), os.path.join(base, "det2")
        run_sbeppc(exe, sx, d1)
        run_sbeppc(exe, sx, d2)
        run_sbeppc(exe, sx, d2)                         # again into the populated directory
        other = os.path.join(base, "cwd")
        os.makedirs(other, exist_ok=True)
        d3 = os.path.join(base, "det3")
        run_sbeppc(exe, os.path.abspath(sx), d3, cwd=other)
        runs += 4
        for label, d in (("second fresh run", d1), ("run into populated directory", d2), ("run from another cwd", d3)):
            if tree_digest(d) != want:
                rep.violation("non-deterministic-output:" + label.replace(" ", "-"), {"schema": name, "msg": "%s: %s differs from the first run" % (name, label)})
        # populated start states: the directory already holds a complete older output in which exactly one file differs
        # from what this run must produce -- longer (new content + tail), shorter (a prefix), empty, same size with other
        # bytes -- for every generated file; and the output of every *other* schema of this run compiled under the same
        # schema name.  Whatever was there, the files of this run must come out byte-identical to the fresh baseline.
        rels = sorted(want)
        pjobs = [(rel, v) for rel in rels for v in ("tail", "prefix", "empty", "same-size")]

        def pone(job):
            rel, v = job
            od = os.path.join(base, "p_%s_%s" % (hashlib.sha1(rel.encode()).hexdigest()[:10], v))
            shutil.rmtree(od, ignore_errors=True)
            shutil.copytree(out0, od)
            fp = os.path.join(od, rel)
            data = open(fp, "rb").read()
            new = {"tail": data + b"\n// stale tail of an older, longer output\n#include \"gone.hpp\"\n", "prefix": data[:len(data) // 2], "empty": b"",
                   "same-size": bytes((b ^ 1) if 64 < b < 123 else b for b in data)}[v]
            open(fp, "wb").write(new)
            rc, txt = run_sbeppc(exe, sx, od)
            got = tree_digest(od)
            shutil.rmtree(od, ignore_errors=True)
            return job, rc, txt, got

        for (rel, v), rc, txt, got in cxx.pmap(pone, pjobs):
            runs += 1
            rep.distinct("distinct_nontrivial", (name, "populated", rel, v))
            if rc != 0:
                if not re.search(r"rror", txt):
                    rep.violation("nonzero-exit-without-diagnostic:populated:" + v, {"schema": name, "msg": "%s: %s pre-populated as %s -> exit %s without diagnostic" % (name, rel, v, rc)})
            elif {f: got.get(f) for f in want} != want:
                differ = sorted(f for f in want if got.get(f) != want[f])
                rep.violation("stale-content-survives:" + v, {"schema": name, "file": rel, "variant": v,
                              "msg": "%s: output directory pre-populated with %s as '%s' (rest identical): exit 0 but %s differ(s) from a fresh compile" % (name, rel, v, differ[:3])})
        rep.add("populated_start_states", len(pjobs))
        if len(rep.cov["samples"]) < 3:
            rep.sample({"schema": name, "io_calls": len(calls), "first_calls": [" ".join(c[:3]) for c in calls[:6]]})
        rep.add("io_calls_owned_by_shim", len(calls))
    rep.set("evaluations", runs)
    rep.set("rule", "one evaluation = one sbeppc run; distinct = distinct (schema, k, fault kind); exit 0 requires a tree byte-identical to the fault-free baseline, non-zero exit requires a diagnostic")
    if runs < 10 and not rep.violations:
        rep.harness_error("vacuous")
    return rep.finish()
