"""C08 -- sbeppc rejects exactly the schemas that break its layout rules (edit x position x boundary twin)."""
import os
import re
import shutil

from .. import cxx, repo
from ..enum import headers, kinds, ruleedits, shapes
from ..evidence import Report
from ..model import ir


def bases(tier):
    out = [("kinds", kinds.kinds_schema(presmix=False))]
    cat = shapes.catalogue("quick")
    for i in ((2, 9, 15) if tier == "quick" else range(0, len(cat), 2)):
        s, _ = cat[i]
        s.msgs = s.msgs[:6 if tier == "quick" else 20]
        out.append(("catalogue-%d" % i, s))
    hs = headers.header_schemas()
    for i in ((0, 28, 47) if tier == "quick" else range(0, len(hs), 4)):
        out.append(("header-%d" % i, hs[i][0]))
    if tier != "quick":
        out.append(("kinds-be", kinds.kinds_schema("bigEndian", presmix=False)))
        out.append(("dims", headers.dim_schemas(with_ref_num=True)[0][0]))
    return out


def run(tier, replay=None):
    rep = Report("C08", tier, "exploration")
    exe = repo.sbeppc("dbg")
    wd = cxx.workdir("c08-" + tier)
    shutil.rmtree(wd, ignore_errors=True)
    os.makedirs(wd)
    jobs = []
    bl = bases(tier)
    for bname, base in bl:
        for rule, pos, verdict, sch in ruleedits.edits(base):
            jobs.append((bname, rule, pos, verdict, ir.to_xml(sch)))
    rep.set("bounds", {"bases": [b for b, _ in bl],
                       "rules": "offset below minimum (field at every level, composite member, nested composite member, ref) | blockLength below content (message, group, nested group) | min/max/null/constant/validValue not representable (every primitive) | choice index beyond width | unknown / wrong-kind / cyclic references (incl. through inline composites) | multi-byte arrays | malformed message / group / data headers | invalid and keyword names at every entity kind | duplicate names (case-insensitive for types), duplicate message id | member order",
                       "twins": "each rule-breaking value next to the valid boundary value that must still be accepted (min-1/min, size-1/size, max+1/max, width/width-1, int16[2]/uint8[2])"})

    def one(item):
        idx, (bname, rule, pos, verdict, xml) = item
        d = os.path.join(wd, "c%d" % idx)
        os.makedirs(d)
        open(os.path.join(d, "in.xml"), "w").write(xml)
        rc, out = cxx.sh([exe, "--output-dir", "out", "in.xml"], timeout=60, cwd=d)
        files = sum(len(f) for _, _, f in os.walk(os.path.join(d, "out"))) if os.path.isdir(os.path.join(d, "out")) else 0
        shutil.rmtree(d, ignore_errors=True)
        return bname, rule, pos, verdict, rc, out or "", files, xml

    acc = rej = 0
    rules_seen = set()
    for bname, rule, pos, verdict, rc, out, files, xml in cxx.pmap(one, list(enumerate(jobs))):
        rules_seen.add(rule)
        rep.distinct("distinct_nontrivial", (rule, verdict))
        located = re.search(r"Error[^\n]*?in\.xml:(\d+):(\d+):", out) is not None
        if rc == 0:
            acc += 1
        else:
            rej += 1
        fam = "base=%s" % bname.split("-")[0]
        if verdict == "accept":
            if rc != 0:
                rep.violation("valid-schema-rejected:%s" % rule, {"base": bname, "rule": rule, "position": pos, "xml": xml,
                              "msg": "%s [%s @ %s]: valid boundary twin rejected: rc=%s %s" % (bname, rule, pos, rc, re.sub(r"\x1b\[[0-9;]*m", "", out)[-300:])})
            elif files == 0:
                rep.violation("accepted-without-output:%s" % rule, {"base": bname, "msg": "%s [%s @ %s]: exit 0 but no output tree" % (bname, rule, pos)})
        elif verdict == "reject":
            if rc == 0:
                rep.violation("rule-breaking-schema-accepted:%s" % rule, {"base": bname, "rule": rule, "position": pos, "xml": xml,
                              "msg": "%s [%s @ %s]: schema that breaks the rule was accepted (exit 0)" % (bname, rule, pos)})
            elif rc is None or rc < 0:
                rep.violation("rejection-by-crash:%s" % rule, {"base": bname, "rule": rule, "position": pos, "xml": xml,
                              "msg": "%s [%s @ %s]: rc=%s %s" % (bname, rule, pos, rc, out[-300:])})
            elif not located:
                rep.violation("rejection-without-located-diagnostic:%s" % rule, {"base": bname, "rule": rule, "position": pos, "xml": xml,
                              "msg": "%s [%s @ %s]: rc=%s output %r" % (bname, rule, pos, rc, re.sub(r"\x1b\[[0-9;]*m", "", out)[-300:])})
        if len(rep.cov["samples"]) < 4 and verdict == "reject" and rule.startswith(("offset", "value")):
            rep.sample({"base": bname, "rule": rule, "position": pos, "expected": verdict, "exit": rc, "diagnostic": re.sub(r"\x1b\[[0-9;]*m", "", out)[:160]})
    rep.set("evaluations", len(jobs))
    rep.set("accepted", acc)
    rep.set("rejected", rej)
    rep.set("rules_x_kinds_covered", len(rules_seen))
    rep.set("rule", "one evaluation = one edited (or twin) schema run through sbeppc; distinct = distinct (rule variant, expected verdict); reject <=> non-zero exit and a diagnostic "
                    "`Error: <file>:<line>:<col>:`; accept <=> exit 0 and an output tree")
    rep.assume("verdicts come from the rule catalogue in vlib/enum/ruleedits.py (SBE 1.0 + doc/sbeppc.md), not from the validator's code")
    rep.assume("two edits whose status the documentation leaves open (varData length=1, dotted package name) are run for totality only")
    if acc == 0 or rej == 0:
        rep.harness_error("vacuous: accepted=%d rejected=%d" % (acc, rej))
    return rep.finish()
