"""C14 -- fixed-length arrays: assignment, padding, strlen/strlen_r (all contents x all inputs x all overloads)."""
from .. import cxx, libcheck
from ._lib import lib_run


def run(tier, replay=None):
    cells = cxx.CODEC_CELLS if tier == "quick" else cxx.ALL_CELLS
    vs = []
    skipped = [c for c in cells if cxx.cell_miscompiles_is_constant_evaluated(c)]
    cells = [c for c in cells if c not in skipped]
    for cell in cells:
        for schema in (("lib_le",) if tier == "quick" else ("lib_le", "lib_be")):
            vs.append(libcheck.Variant("%s-%s" % (cxx.cell_name(cell), schema), cell,
                                       ["SBEPP_ENABLE_ASSERTS_WITH_HANDLER", "SCHEMA=" + schema]))
    # constant evaluation (C++20 and later): the table for N = 0..3 inside static_asserts
    from ..evidence import Report
    rep = Report("C14", tier, "model_checking")
    ce_cells = [c for c in ([("g++", "c++20"), ("clang++", "c++20")] if tier == "quick" else [("g++", "c++20"), ("g++", "c++23"), ("clang++", "c++20"), ("clang++", "c++2b")])
                if not cxx.cell_miscompiles_is_constant_evaluated(c)]
    cvs = [libcheck.Variant("ce-%s" % cxx.cell_name(c), c, [], compile_sig="constexpr-array-ops:static-assert-or-not-constant") for c in ce_cells]
    lib_run("C14", tier, "c14ce", "c14_constexpr.cpp", cvs, {}, 1, [], [], replay=replay, rep=rep, finish=False)
    ce_tr = rep.cov.get("transitions", 0)
    ce_st = rep.cov.get("states", 0)
    r = lib_run(
        "C14", tier, "c14", "c14_array.cpp", vs,
        {"N": "0..4 (class template: 0,1,2,3,4; generated accessors: 0,2,3,4)", "content_alphabet": "{NUL,'a','b'}",
         "input_lengths": "0..N", "eos_modes": ["none", "single", "all", "default"],
         "overloads": "assign_string(const char*), assign_string(std::string|vector<char>|string_view), assign_range(string|vector), assign(cnt,v), assign(ptr,ptr), assign(input_it,input_it), assign(ilist), fill, strlen, strlen_r, operator[], front/back, iteration, raw()",
         "element_types": ["char", "uint8"], "byte_types": ["char", "unsigned char"]},
        34,
        [{"state": "\"a\\0b\"", "op": "assign_string(\"b\", single)", "expected": "\"b\\0b\", returned iterator = begin()+1"}],
        (["cell(s) %s skipped: the toolchain takes `if(<constexpr wrapper of std::is_constant_evaluated()>)` at run time (probe in vlib/cxx.py; clang 14 -std=c++2b if-consteval bug), so strlen() runs its constant-evaluation branch; not a defect of the code under test" % [cxx.cell_name(c) for c in skipped]] if skipped else []) +
        ["strlen() is not instantiated for uint8 arrays: it is ill-formed there (data() is handed to a const char* function); the property speaks of strings",
         "inputs longer than N violate the documented precondition and are not generated"],
        replay=replay, rep=rep, finish=False)
    rep.set("constexpr_transitions", ce_tr)
    rep.set("constexpr_cells", [cxx.cell_name(c) for c in ce_cells])
    rep.set("transitions", rep.cov.get("transitions", 0) + ce_tr)
    rep.set("states", rep.cov.get("states", 0) + ce_st)
    rep.set("traces_validated_against_impl", rep.cov.get("transitions", 0))
    return rep.finish()
