"""C14 -- fixed-length arrays: assignment, padding, strlen/strlen_r (all contents x all inputs x all overloads)."""
from .. import cxx, libcheck
from ._lib import lib_run


def run(tier, replay=None):
    cells = cxx.QUICK_CELLS if tier == "quick" else cxx.ALL_CELLS
    vs = []
    skipped = [c for c in cells if cxx.cell_miscompiles_is_constant_evaluated(c)]
    cells = [c for c in cells if c not in skipped]
    for cell in cells:
        for schema in (("lib_le",) if tier == "quick" else ("lib_le", "lib_be")):
            vs.append(libcheck.Variant("%s-%s" % (cxx.cell_name(cell), schema), cell,
                                       ["SBEPP_ENABLE_ASSERTS_WITH_HANDLER", "SCHEMA=" + schema]))
    return lib_run(
        "C14", tier, "c14", "c14_array.cpp", vs,
        {"N": "0..4 (class template: 0,1,2,3,4; generated accessors: 0,2,3,4)", "content_alphabet": "{NUL,'a','b'}",
         "input_lengths": "0..N", "eos_modes": ["none", "single", "all", "default"],
         "overloads": "assign_string(const char*), assign_string(std::string|vector<char>|string_view), assign_range(string|vector), assign(cnt,v), assign(ptr,ptr), assign(input_it,input_it), assign(ilist), fill, strlen, strlen_r, operator[], front/back, iteration, raw()",
         "element_types": ["char", "uint8"], "byte_types": ["char", "unsigned char"]},
        34,
        [{"state": "\"a\\0b\"", "op": "assign_string(\"b\", single)", "expected": "\"b\\0b\", returned iterator = begin()+1"}],
        (["cell(s) %s skipped: the toolchain takes `if(<constexpr wrapper of std::is_constant_evaluated()>)` at run time (probe in vlib/cxx.py; clang 14 -std=c++2b if-consteval bug), so strlen() runs its constant-evaluation branch; not a defect of the code under test" % [cxx.cell_name(c) for c in skipped]] if skipped else []) +
        ["strlen() is not instantiated for uint8 arrays: it is ill-formed there (data() is handed to a const char* function); the property speaks of strings",
         "inputs longer than N violate the documented precondition and are not generated"],
        replay=replay)
