"""C12 -- group views obey iterator / container laws for every dimension type pair."""
from .. import cxx, libcheck
from ._lib import lib_run


def run(tier, replay=None):
    cells = cxx.CODEC_CELLS if tier == "quick" else cxx.FOUR_CELLS
    depth = 2 if tier == "quick" else 3
    vs = []
    for cell in cells:
        for schema, big in (("lib_le", 0), ("lib_be", 1)):
            vs.append(libcheck.Variant("%s-%s-d%d" % (cxx.cell_name(cell), schema, depth), cell,
                                       ["SBEPP_ENABLE_ASSERTS_WITH_HANDLER", "SCHEMA=" + schema, "BIG=%d" % big,
                                        "DEPTH=%d" % depth], opt="-O1"))
    # release configuration (no assertions, views without an end pointer): the three iterator classes compile different
    # operator* / constructor branches under `#if SBEPP_SIZE_CHECKS_ENABLED`
    for cell in (cells[:1] if tier == "quick" else cells):
        for schema, big in (("lib_le", 0), ("lib_be", 1)):
            vs.append(libcheck.Variant("rel-%s-%s-d%d" % (cxx.cell_name(cell), schema, depth), cell,
                                       ["SBEPP_DISABLE_ASSERTS", "SCHEMA=" + schema, "BIG=%d" % big,
                                        "DEPTH=%d" % depth], opt="-O1"))
    return lib_run(
        "C12", tier, "c12", "c12_group.cpp", vs,
        {"pairs": "all 16 (numInGroup, blockLength) type pairs over uint8/16/32/64", "group_sizes": [0, 1, 2, 3],
         "wire_block_lengths": [0, 1, 2, 5], "iterator_ops": "++it --it it++ it-- it+=k it-=k it+k k+it it-k, k in -3..3",
         "depth": depth, "configurations": "checked (assertion handler) on every cell; release (SBEPP_DISABLE_ASSERTS) on %s" % ("the first cell" if tier == "quick" else "every cell"), "starts": ["begin()", "end()"],
         "per_step_observations": "addressof(*it), it->, field read, it[k] and *(it+k) for every reachable k, (it+k)-k, ==,!=,<,<=,>,>=,- against an iterator at every index",
         "nested": "inner counts over {0,1,2}^n, n<=3; forward steps (pre/post), equality, entry start/size, inner group, front, size_bytes, resize/clear"},
        32,
        [{"state": "num=u8,bl=u32 n=3 BL=5 idx=2", "op": "it-1", "expected": "entry at header + 1*5"},
         {"state": "nested n=2 BL=2 inner=[2,0]", "op": "++it", "expected": "entry 1 starts where entry 0 ends (hdr+2+2+2)"}],
        ["indices stay inside [0, n] (the iterator requirements' own domain)",
         "group sizes up to 3: difference_type overflow for sizes beyond the signed range of small numInGroup types is outside the scope"],
        replay=replay)
