"""C06 -- size_bytes_checked is safe and exact on untrusted buffers (fault enumeration over well-formed images)."""
from .. import cxx, pipeline
from ..enum import shapes
from ..evidence import Report
from . import _cat


def sig_c06(prefix, detail, meta):
    """the failing input class: outcome x what was done to the buffer (see DESIGN.md 9, C06)"""
    kind = detail.split()[0]
    cls = meta.get("class", "?")
    trunc = cls.startswith("cut-in:") or cls in ("exact", "trailing-junk")
    if kind == "OUTCOME":
        out = detail.split()[1]
        if out == "FAULT":
            return "sbc:over-read:truncated-in:" + cls.split(":", 1)[1] if cls.startswith("cut-in:") else (
                "sbc:over-read:" + cls if trunc else "sbc:over-read:after-corrupted-header-field")
        if out == "TIMEOUT":
            return "sbc:unbounded-work:" + (cls if trunc else "after-corrupted-header-field")
        return "sbc:%s:%s" % (out, cls)
    if kind == "RESULT":
        got, want = detail.split("want")
        if ("valid=1" in got) != ("valid=1" in want):
            if cls.startswith("length(") and ",u64)=max" in cls:
                return "sbc:valid-mismatch:u64-data-length-overflow"
            return "sbc:valid-mismatch:" + cls
        return "sbc:size-mismatch:" + cls
    return "sbc:%s:%s" % (kind, cls)


def run(tier, replay=None):
    rep = Report("C06", tier, "fault_enumeration")
    cells = [("g++", "c++17")] if tier == "quick" else cxx.QUICK_CELLS
    cap = 3 if tier == "quick" else 6
    schemas = shapes.catalogue(tier, "littleEndian")
    if tier != "quick":
        schemas += shapes.catalogue("quick", "bigEndian")
    # message headers / dimensions whose members are not the usual uint16: a corrupted 64-bit blockLength can make sums wrap
    # (mutant c06f); every integer type of blockLength, the all-uint64 layout, and a stride of the other layouts
    from ..enum import headers
    hs = headers.header_schemas()
    schemas += [(s, d) for s, d in hs if "blockLength=" in d[0] or ":all=" in d[0]] + (hs[::16] if tier == "quick" else hs[::4])
    rep.set("bounds", {"shapes": "catalogue families A and B; header-layout schemas (blockLength of every unsigned width, all members uint64, a stride of the permutation / gap / ref / counter layouts)", "size_vectors": "ladder <= %d per message" % cap,
                       "truncation": "every n in 0..len, plus len+1 and len+9 (trailing junk)",
                       "corruption": "every blockLength / numInGroup / data length instance at every nesting level and entry overwritten with 0, 1, fit-1, fit+1, max/2+1, max-1, max (one at a time%s)" % ("; also combined with n in {len-1, len, len+9}" if tier != "quick" else ""),
                       "views": "message, every top-level group", "configuration": "SBEPP_DISABLE_ASSERTS + exact-size buffer ending at a PROT_NONE page (release behaviour: any read at offset >= n faults)",
                       "cpu_budget_ms_per_call": 100, "cells": [cxx.cell_name(c) for c in cells]})
    kw = {"cap": cap, "pairs": tier != "quick", "ok_fields": ("valid_seen",)}
    total_cases = 0
    for cfgname, defines in (("release", ["SBEPP_DISABLE_ASSERTS"]),):
        builts = pipeline.prepare("c06-%s-%s" % (cfgname, tier), schemas, cells, srcgen=("vlib.gen.checkedx", "driver_source"), defines=defines)
        total = pipeline.run(builts, cells, "vlib.checks._cat", "plan_c06", kw, deadline_s=800 if tier == "quick" else 3000)
        _cat.report_pipeline(rep, builts, total, "sbc-" + cfgname, sig_fn=sig_c06)
        total_cases += total.cases
        rep.set("cases_" + cfgname, total.cases)
        rep.set("ok_" + cfgname, total.ok)
        nd = len(total.distinct)
    rep.set("evaluations", total_cases)
    rep.set("distinct_nontrivial", nd)
    rep.set("rule", "one evaluation = one size_bytes_checked call on one (image, truncation | corruption, view, configuration); distinct = distinct (shape, size vector); "
                    "the reference is a structural walk over the same bytes with unbounded integers (flat groups multiply, nested groups walk entries while they fit)")
    rep.assume("outcome OK required: FAULT = a byte at offset >= n was read; TIMEOUT = work not bounded by n; HANDLER (checked build) = attempted access beyond the view")
    if rep.cov.get("valid", 0) == 0 or rep.cov.get("invalid", 0) == 0:
        if not rep.violations:
            rep.harness_error("vacuous: valid=%s invalid=%s" % (rep.cov.get("valid"), rep.cov.get("invalid")))
    return rep.finish()
