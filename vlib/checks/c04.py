"""C04 -- cursor access == random access, cursor protocol (explicit-state: every cursor offset x every label)."""
from .. import cxx, pipeline
from ..enum import shapes
from ..evidence import Report
from . import _cat


def sig_c04(prefix, detail, meta):
    # "CURSOR ## sig => detail ## sig => detail"
    if detail.startswith("CURSOR"):
        sigs = [p.split("=>")[0].strip() for p in detail.split("##")[1:]]
        return "cursor:%s:%s" % (sigs[0] if sigs else "?", meta.get("desc"))
    return _cat.default_sig(prefix, detail, meta)


def run(tier, replay=None):
    rep = Report("C04", tier, "model_checking")
    cells = [("clang++", "c++20")] if tier == "quick" else cxx.QUICK_CELLS
    tcells = cxx.QUICK_CELLS if tier == "quick" else cxx.FOUR_CELLS
    cap = 4 if tier == "quick" else 16
    maxlen = 2 if tier == "quick" else 3
    schemas = []
    for bo in ("littleEndian",):     # the cursor protocol does not depend on the byte order (values are compared by C02/C03)
        schemas += shapes.catalogue(tier, bo)
    rep.set("bounds", {"catalogue": "families A and B", "size_vectors": "ladder, <= %d per message" % cap,
                       "states": "every byte offset 0..len of the image and the null cursor, for every view reachable by random access (message, every entry at every depth)",
                       "labels": "every non-constant member x {plain, init, dont_move, init_dont_move, skip} getters; scalar fields also x 4 setters (writing the value already there); cursor<byte> and cursor<const byte>",
                       "traversals": "complete in-order traversals; wrapper per member from every cyclic choice string over {plain,init,skip,dont_move+plain,init_dont_move+plain} of length <= %d; group iteration by cursor_range / cursor_begin..end / cursor_subrange(0) / cursor_subrange(0,n) / split subranges" % maxlen,
                       "cells": [cxx.cell_name(c) for c in cells], "traversal_cells": [cxx.cell_name(c) for c in tcells],
                       "release_configuration": "the traversals again with SBEPP_DISABLE_ASSERTS on %d cell(s)" % (1 if tier == "quick" else 2)})
    builts = pipeline.prepare("c04-" + tier, schemas, cells, srcgen=("vlib.gen.cursorx", "driver_source"))
    total = pipeline.run(builts, cells, "vlib.checks._cat", "plan_c04",
                         {"cap": cap, "ok_fields": ("transitions", "legal", "illegal", "states")},
                         deadline_s=700 if tier == "quick" else 3600)
    _cat.report_pipeline(rep, builts, total, "cursor", sig_fn=sig_c04)
    # part 2: complete traversals with every wrapper-choice string and every group iteration style
    tb = pipeline.prepare("c04t-" + tier, schemas, tcells, srcgen=("vlib.gen.traverse", "driver_source"))
    ttotal = pipeline.run(tb, tcells, "vlib.checks._cat", "plan_traverse", {"cap": cap, "maxlen": maxlen},
                          deadline_s=600 if tier == "quick" else 3600)
    shapes_n = total.counters.get("shapes", 0)
    _cat.report_pipeline(rep, tb, ttotal, "traverse")
    # part 3: the same traversals in the release configuration (SBEPP_DISABLE_ASSERTS: views carry no end pointer and the
    # iterators / cursor ranges compile their `#else` branches) -- the equivalence and the cursor positions do not depend
    # on checks being compiled in
    rcells = tcells[:1] if tier == "quick" else tcells[:2]
    rb = pipeline.prepare("c04tr-" + tier, schemas, rcells, srcgen=("vlib.gen.traverse", "driver_source"), defines=("SBEPP_DISABLE_ASSERTS",))
    rtotal = pipeline.run(rb, rcells, "vlib.checks._cat", "plan_traverse", {"cap": cap, "maxlen": maxlen},
                          deadline_s=600 if tier == "quick" else 3600)
    _cat.report_pipeline(rep, rb, rtotal, "traverse-release")
    rep.set("release_traversals", rtotal.cases)
    rep.set("shapes", shapes_n)
    rep.set("traversals", ttotal.cases)
    rep.set("traversals_ok", ttotal.ok)
    rep.set("traversal_calls", ttotal.counters.get("calls", 0) * len(tcells))
    rep.set("states", total.counters.get("states", 0))
    rep.set("transitions", total.counters.get("transitions", 0))
    rep.set("traces_validated_against_impl", total.counters.get("transitions", 0))
    rep.set("legal_calls", total.counters.get("legal", 0))
    rep.set("illegal_calls_reported", total.counters.get("illegal", 0))
    rep.set("images", total.cases)
    rep.assume("reference: the cursor protocol table of DESIGN.md Appendix A (from doc/representation.md and the doxygen of cursor_ops)")
    rep.assume("a message without any non-constant member has no cursor accessor: the cursor stays where init_cursor put it")
    if not rep.violations:
        if total.counters.get("illegal", 0) == 0 or total.counters.get("legal", 0) == 0:
            rep.harness_error("vacuous: legal=%s illegal=%s" % (total.counters.get("legal"), total.counters.get("illegal")))
    return rep.finish()
