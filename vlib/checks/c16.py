"""C16 -- optional/required scalars: null, range, ordering, SBE defaults."""
from .. import cxx, libcheck
from ._lib import lib_run


def run(tier, replay=None):
    cells = cxx.CODEC_CELLS if tier == "quick" else cxx.ALL_CELLS
    vs = []
    for cell in cells:
        cxx20 = cell[1] in ("c++20", "c++23", "c++2b")
        for schema in (("lib_le",) if tier == "quick" else ("lib_le", "lib_be")):
            base = ["SBEPP_ENABLE_ASSERTS_WITH_HANDLER", "SCHEMA=" + schema]
            if cxx20:
                vs.append(libcheck.Variant("%s-%s-p0" % (cxx.cell_name(cell), schema), cell, base + ["PART=0", "FP_ORDER_SEPARATE"]))
                vs.append(libcheck.Variant("%s-%s-p1" % (cxx.cell_name(cell), schema), cell, base + ["PART=1"],
                                           compile_sig="fp-optional-ordering-does-not-compile:operator<=>"))
            else:
                vs.append(libcheck.Variant("%s-%s-p0" % (cxx.cell_name(cell), schema), cell, base + ["PART=0"]))
    return lib_run(
        "C16", tier, "c16", "c16_opt.cpp", vs,
        {"primitives": 11, "kinds": ["built-in required/optional", "generated without min/max/null", "generated with explicit min/max/null"],
         "values": "ints: 0, +-1, min, max, null, numeric min/max, min+-1, max+-1; fp: +-0, +-1, min, max, null, denorm_min, lowest, +-inf, quiet NaN, NaN with payload, negative NaN, signalling NaN",
         "pairs": "all ordered pairs of the boundary set", "ops": "has_value bool value_or in_range == != < <= > >= <=>(C++20) default/nullopt construction min_value/max_value/null_value"},
        1,
        [{"state": "float_opt_t{}", "op": "has_value()", "expected": "false (default-constructed optional is null)"},
         {"state": "(int16_opt{null}, int16_opt{-1})", "op": "<", "expected": "true (null orders before every value)"}],
        ["a floating-point value is null iff it equals null_value(), or null_value() is NaN and the value is any NaN",
         "SBE defaults typed in from the SBE 1.0 primitive type table; float/double min = numeric_limits::min() as the built-in types document"],
        replay=replay, level="exploration")
