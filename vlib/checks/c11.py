"""C11 -- read-only views cannot mutate the buffer."""
import os

from .. import cxx, pipeline
from ..enum import kinds, shapes
from ..evidence import Report
from ..gen import build, constx
from ..model import layout
from . import _cat


def run(tier, replay=None):
    rep = Report("C11", tier, "exploration")
    cells = cxx.QUICK_CELLS if tier == "quick" else cxx.FOUR_CELLS
    PLAIN = ("char", "const char")
    todo = [("kinds", kinds.kinds_schema("littleEndian"), PLAIN)]
    # other byte types: the read-only one is `const` plus something else (cv propagation into element / reference / pointer types)
    todo += [("kinds", kinds.kinds_schema("littleEndian"), b) for b in [("volatile char", "const volatile char"), ("unsigned char", "const unsigned char")]]
    cat = shapes.catalogue(tier)
    step = max(1, len(cat) // (5 if tier == "quick" else 20))
    todo += [("catalogue", s, PLAIN) for s, _ in cat[::step]]
    if tier != "quick":
        todo += [("catalogue", s, ("volatile unsigned char", "const volatile unsigned char")) for s, _ in cat[::step * 4]]
    rep.set("bounds", {"schemas": "kinds + a stride of the catalogue (%d schemas)" % len(todo),
                       "mutators": "every field / composite-member setter, set_by_tag, cursor setters (plain and wrapped), fill_message_header, fill_group_header, header setters, group resize/clear, every dynamic_array_ref and static_array_ref mutator overload, element assignment through operator[] / iterators / front / back / data / raw()",
                       "combinations": "(V<const B>), (V<const B>, cursor<B>), (V<B>, cursor<const B>), (V<const B>, cursor<const B>); positive control on the mutable twin",
                       "derived_views": "every view-returning accessor (group, data, composite, array; entries through [] / front / back / iterators / cursor_range / cursor_begin / cursor_subrange) named and through get_by_tag, without cursor and with cursor x {plain, init, dont_move, init_dont_move} on every view/cursor constness combination: the resulting view's byte type must be const unless view and cursor are both mutable",
                       "byte_types": "B / const B for B = char on every schema; volatile char / const volatile char and unsigned char / const unsigned char on the kinds schema (thorough: volatile unsigned char on a stride of the catalogue)",
                       "conversions": "V<B> <-> V<const B> for every view / entry / array / data type and cursors",
                       "run_time": "every getter, size query, iterator, cursor traversal, get_by_tag and visit on an image mapped PROT_READ",
                       "cells": [cxx.cell_name(c) for c in cells]})
    wd = cxx.workdir("c11-" + tier)

    def one(item):
        fam, s, bytes_ = item
        root = os.path.join(wd, s.package + "-" + bytes_[1].replace(" ", "_"))
        sb = build.SchemaBuild(s, root)
        if not sb.generate():
            return fam, s, None, "rejected: " + sb.log[-500:]
        rmsgs = layout.Resolver(s).messages()
        src, cp = constx.stage1_source(s, rmsgs, sb.top_header(), bytes_)
        cpp = os.path.join(root, "probes.cpp")
        open(cpp, "w").write(src)
        results = []
        for cell in cells:
            exe = os.path.join(root, "probes_" + cxx.cell_name(cell))
            ok, log = cxx.build(cell, [cpp], exe, includes=[sb.inc], defines=["SBEPP_ENABLE_ASSERTS_WITH_HANDLER"])
            if not ok:
                results.append((cell, "compile", log[-2500:], None))
                continue
            rc, out = cxx.sh([exe], timeout=120)
            results.append((cell, "ran", out, rc))
        return fam, s, (sb, cp, results), None

    probes = neg = stage2 = convs = derived = derived_neg = 0
    derived_obs = {}
    stage2_jobs = []
    for fam, s, res, err in cxx.pmap(one, todo, jobs=8):
        if err:
            rep.harness_error("%s: %s" % (s.package, err))
            continue
        sb, cp, results = res
        byid = {p.pid: p for p in cp.probes}
        dbyid = {p.pid: p for p in cp.derived}
        rep.distinct("distinct_nontrivial", (s.package, cp.bytes))
        bt = "" if cp.bytes[0] == "char" else ":bytes=" + cp.bytes[1].replace(" ", "-")
        for cell, kind, out, rc in results:
            cn = cxx.cell_name(cell)
            if kind == "compile":
                rep.harness_error("%s probe table does not compile on %s: %s" % (s.package, cn, out[-900:]))
                continue
            if rc != 0 or "DONE" not in out:
                rep.harness_error("%s probe table run failed on %s" % (s.package, cn))
                continue
            flagged = []
            for line in out.splitlines():
                w = line.split("\t")
                if w[0] == "P":
                    pid, combo, val = int(w[1]), w[2], int(w[3])
                    p = byid[pid]
                    probes += 1
                    if combo.startswith("mut") and combo in ("mut", "mut/mut"):
                        if val != 1:
                            rep.harness_error("%s: positive control failed for %s (%s): the mutator is not invocable on the mutable view" % (s.package, p.what, p.kind))
                    else:
                        neg += 1
                        if val == 1:
                            flagged.append((p, combo))
                elif w[0] == "D":
                    # a view obtained from a view / cursor combination: mutable byte type only if everything is mutable
                    pid, combo, inv, cb = int(w[1]), w[2], int(w[3]), int(w[4])
                    p = dbyid[pid]
                    derived += 1
                    if combo in ("mut", "mut/mut"):
                        if inv != 1 or cb != 0:
                            rep.harness_error("%s: positive control failed for %s (%s): invocable=%d const-byte=%d" % (s.package, p.what, p.kind, inv, cb))
                    elif inv == 1 and p.kind == "derived-view:entry:cursor-iteration" and combo == "mut-view/const-cursor":
                        # entries of a cursor range have the *group's* value_type by design (cursor_range_t is declared with
                        # value_type); their mutability is the mutable group's own, the const cursor adds nothing: recorded only
                        derived_obs[cb] = derived_obs.get(cb, 0) + 1
                    elif inv == 1:
                        derived_neg += 1
                        if cb != 1:
                            rep.violation("mutable-view-from-const:%s:%s%s" % (p.kind, combo, bt),
                                          {"schema": s.package, "bytes": cp.bytes[1], "cell": cn, "msg": "%s: `%s` on %s yields a view with a mutable byte type" % (s.package, p.what, combo)})
                    elif combo != "const-view/mut-cursor" and p.cursor is False:
                        rep.harness_error("%s: getter %s not invocable on %s" % (s.package, p.what, combo))
                elif w[0] == "CONV":
                    convs += 1
                    to_const, to_mut = int(w[2]), int(w[3])
                    if not to_const:
                        rep.violation("conversion:to-const-missing:" + fam, {"schema": s.package, "cell": cn, "msg": "%s: %s<B> is not convertible to <const B>" % (s.package, w[1])})
                    if to_mut:
                        rep.violation("conversion:const-to-mutable:" + (w[1][0] if w[1] != "cursor" else "cursor"),
                                      {"schema": s.package, "cell": cn, "msg": "%s: %s<const B> converts implicitly to <B>" % (s.package, w[1])})
            for p, combo in flagged:
                stage2_jobs.append((s, sb, cp, cell, p, combo, fam))
        if len(rep.cov["samples"]) < 3:
            rep.sample({"schema": s.package, "probes": len(cp.probes), "example": cp.probes[min(5, len(cp.probes) - 1)].what})
    # stage 2: each flagged probe compiled alone as a real call (a shared failed instantiation is reported only once
    # per TU, so probes cannot share one)
    def stage2_one(job):
        s, sb, cp, cell, p, combo, fam = job
        cn = cxx.cell_name(cell)
        f2 = os.path.join(sb.root, "s2_%d_%s_%s.cpp" % (p.pid, combo.replace("/", "_"), cn))
        open(f2, "w").write(constx.stage2_source(s, sb.top_header(), cp, p, combo))
        ok2, log2 = cxx.syntax(cell, f2, includes=[sb.inc], defines=["SBEPP_ENABLE_ASSERTS_WITH_HANDLER"])
        os.unlink(f2)
        return s, cn, p, combo, ok2, cp.bytes

    for s, cn, p, combo, ok2, cpb in cxx.pmap(stage2_one, stage2_jobs):
        stage2 += 1
        if ok2:
            bt = "" if cpb[0] == "char" else ":bytes=" + cpb[1].replace(" ", "-")
            rep.violation("const-mutator-compiles:%s:%s%s" % (p.kind, combo, bt),
                          {"schema": s.package, "cell": cn, "bytes": cpb[1], "msg": "%s: `%s` compiles for %s (read-only byte type `%s`)" % (s.package, p.what, combo, cpb[1])})
    # run-time: non-mutating operations on a read-only mapping
    rcells = cells[:1] if tier == "quick" else cells
    rschemas = shapes.catalogue(tier, "littleEndian")
    builts = pipeline.prepare("cat-" + tier, rschemas, rcells)
    total = pipeline.run(builts, rcells, "vlib.checks._cat", "plan_dump", {"cap": 3 if tier == "quick" else 10, "flags": "csr", "seeds": (0x10,)})
    _cat.report_pipeline(rep, builts, total, "readonly")
    ks = [(kinds.kinds_schema("littleEndian"), None)]
    ks = [(s, [m.name for m in s.msgs]) for s, _ in ks]
    vb = pipeline.prepare("c19k-" + tier, ks, rcells, srcgen=("vlib.gen.visitx", "driver_source"))
    vt = pipeline.run(vb, rcells, "vlib.checks._cat", "plan_visit", {"cap": 3, "boundary": True, "nvalues": 3})
    _cat.report_pipeline(rep, vb, vt, "readonly-visit")
    rep.set("probes", probes)
    rep.set("negative_probes", neg)
    rep.set("second_stage_compiles", stage2)
    rep.set("conversion_pairs", convs)
    rep.set("derived_view_probes", derived)
    rep.set("derived_view_probes_on_const_combinations", derived_neg)
    rep.set("cursor_range_entries_of_mutable_group_with_const_cursor", {"const-byte" if k else "group-byte-type": v for k, v in derived_obs.items()})
    rep.assume("views returned by cursor-based accessors carry the cursor's byte type (doc/representation.md 'Cursor-based accessors', unit test ViewAccessorReturnViewWithSameByteTypeAsCursor); "
               "entries produced by cursor_range/cursor_begin/cursor_subrange carry the group's byte type by declaration, which is recorded, not judged, for a mutable group with a const cursor")
    rep.set("readonly_images_decoded", total.cases + vt.cases)
    rep.set("evaluations", probes + convs + total.cases + vt.cases)
    rep.set("rule", "one evaluation = one probe on one byte/cursor combination and cell, one conversion pair, or one read-only image decoded completely; distinct = distinct schemas")
    rep.assume("a probe the detection idiom reports invocable (non-template members cannot be SFINAE-detected) is compiled alone: a hard error still counts as rejected at compile time")
    if neg == 0 and not rep.violations:
        rep.harness_error("vacuous")
    return rep.finish()
