"""C15 -- set choices are independent bits for every encoding width."""
from .. import cxx, libcheck
from ._lib import lib_run


def run(tier, replay=None):
    cells = cxx.CODEC_CELLS if tier == "quick" else cxx.ALL_CELLS
    vs = []
    for cell in cells:
        for schema, big in (("lib_le", 0), ("lib_be", 1)):
            vs.append(libcheck.Variant("%s-%s" % (cxx.cell_name(cell), schema), cell,
                                       ["SBEPP_ENABLE_ASSERTS_WITH_HANDLER", "SCHEMA=" + schema, "BIG=%d" % big], opt="-O1"))
    return lib_run(
        "C15", tier, "c15", "c15_set.cpp", vs,
        {"widths": [8, 16, 32, 64], "indices": "every index 0..width-1 (a choice is generated at each)",
         "values": "8/16 bit: all 2^8 / 2^16 values (complete); 32/64 bit: 0, ~0, walking 1, walking 0, 0x55.., 0xAA.., 2^31-1, 2^31, 2^31+1, 2^32-1, 2^32, 2^32+1, 2^63-1, 2^63, three mixed patterns",
         "ops": "named get, named set(false/true), get_by_tag, set_by_tag, visit (on_set_choice), visit_set, operator*, ==, !=, default ctor, message field store/load in schema byte order; static_assert table for constant evaluation (C++14+)"},
        5,
        [{"state": "s64{0}", "op": "c40(true)", "expected": "0x0000010000000000, no other bit"},
         {"state": "s16{0xA5A5}", "op": "visit", "expected": "16 callbacks c0..c15 in order, bit i = (v>>i)&1"}],
        ["32/64-bit value spaces are not enumerable: a structured subset is explored (stated in bounds); random patterns are not used",
         "host is little-endian x86-64"],
        replay=replay)
