"""C01 -- encoding writes exactly the SBE wire image (state = buffer, transition = one encode op, shadow-buffer oracle)."""
from .. import cxx, pipeline
from ..enum import shapes
from ..evidence import Report
from . import _cat


def run(tier, replay=None):
    rep = Report("C01", tier, "model_checking")
    cells = cxx.QUICK_CELLS if tier == "quick" else cxx.FOUR_CELLS
    cap = 12 if tier == "quick" else 40
    schemas = []
    for bo in ("littleEndian", "bigEndian"):
        schemas += shapes.catalogue(tier, bo)
    rep.set("bounds", {"catalogue": "families A (level layouts x 4 placements) and B (group/data structures), both byte orders",
                       "size_vectors": "largest ladder rung with <= %d vectors per message; rungs %s" % (cap, _cat.LADDER),
                       "value_vectors": 2, "backgrounds": ["0xA5", "stale valid image of the same message"],
                       "drivers": ["random access", "plain cursor (+skip for unwritten fields, dont_move for data)", "set_by_tag", "set_by_tag / get_by_tag with a plain cursor"],
                       "write_masks": "all 2^k subsets (k<=4) on the largest size vector, all-written elsewhere",
                       "data_assign": ["assign_range", "resize+operator[]", "assign(first,last)", "clear+push_back"],
                       "group_header": ["fill_group_header(n)", "fill_group_header(0)+resize(n)"],
                       "cells": [cxx.cell_name(c) for c in cells]})
    builts = pipeline.prepare("cat-" + tier, schemas, cells)
    total = pipeline.run(builts, cells, "vlib.checks._cat", "plan_c01", {"cap": cap},
                         deadline_s=700 if tier == "quick" else 3600)
    _cat.report_pipeline(rep, builts, total, "enc")
    # kinds: every primitive / enum / set / composite-with-refs / array encoding kind, both byte orders
    from ..enum import kinds
    kcells = cxx.CODEC_CELLS if tier == "quick" else cxx.ALL_CELLS
    ks = []
    for bo in ("littleEndian", "bigEndian"):
        s = kinds.kinds_schema(bo)
        ks.append((s, [m.name for m in s.msgs]))
    kb = pipeline.prepare("kinds-" + tier, ks, kcells)
    kt = pipeline.run(kb, kcells, "vlib.checks._cat", "plan_c01", {"cap": 8 if tier == "quick" else 30})
    _cat.report_pipeline(rep, kb, kt, "enc-kinds")
    total.cases += kt.cases
    total.ok += kt.ok
    total.distinct |= kt.distinct
    ops = total.counters.get("ops", 0) * len(cells) + kt.counters.get("ops", 0) * len(kcells)
    rep.set("states", len(total.distinct) * 1)
    rep.set("transitions", ops)
    rep.set("traces_validated_against_impl", ops)
    rep.set("encode_scripts", total.cases)
    rep.set("scripts_ok", total.ok)
    rep.assume("scripts are in-order; structure-defining writes (header fills, group sizes, data lengths) are never skipped")
    rep.assume("reference model: vlib/model (layout + codec), independent of sbepp; compared after every op via a shadow buffer")
    if total.cases == 0 and not rep.violations:
        rep.harness_error("vacuous: no encode script executed")
    return rep.finish()
