"""C10 -- checked builds never touch memory outside the view silently (fault enumeration: every n x every op)."""
from .. import cxx, pipeline
from ..enum import kinds, shapes
from ..evidence import Report
from . import _cat


def sig_c10(prefix, detail, meta):
    if detail.startswith("PROBE"):
        sigs = [p.split("=>")[0].strip() for p in detail.split("##")[1:]]
        return "%s:%s:%s" % (prefix, sigs[0] if sigs else "?", meta.get("mode", "").split(":")[0])
    return _cat.default_sig(prefix, detail, meta)


def run(tier, replay=None):
    rep = Report("C10", tier, "fault_enumeration")
    cells = [("g++", "c++17")] if tier == "quick" else cxx.QUICK_CELLS
    cap = 2 if tier == "quick" else 8
    rep.set("bounds", {"schemas": "kinds (every representation kind) and catalogue families A and B", "size_vectors": "ladder <= %d per message" % cap,
                       "view_lengths": "every n in 0..len with the buffer ending exactly at a PROT_NONE page",
                       "ops": "per sub-object: field get/set/get_by_tag/cursor(init) get+set; array view/index/iterate/front/back/strlen_r/strlen (char arrays)/fill/assign/size_bytes/raw()-derived view index+fill+iterate; composite view/size_bytes/members; group view/size/header/resize/size_bytes/begin/end/iterate/front/back/operator[]/iterator arithmetic/cursor_range; entry size_bytes; data view/size/size_bytes/iterate/index/front/back/data/resize/assign_range/assign/pop+push/erase+insert; message header/fill/size_bytes/visit/cursor traversal/size_bytes_checked",
                       "header_steering": "every blockLength/numInGroup/length instance overwritten with fit-1, fit+1, max/2+1, max at n = len (only 'no silent outside access' is checked there)",
                       "cells": [cxx.cell_name(c) for c in cells]})
    fields = ("ops", "ok", "handler", "timeouts_not_judged", "faults_below_view_start_not_judged")
    ks = []
    for bo in ("littleEndian", "bigEndian"):
        s = kinds.kinds_schema(bo)
        ks.append((s, [m.name for m in s.msgs]))
    kb = pipeline.prepare("c10k-" + tier, ks, cells, srcgen=("vlib.gen.probex", "driver_source"))
    kt = pipeline.run(kb, cells, "vlib.checks._cat", "plan_c10", {"cap": cap, "ok_fields": fields})
    _cat.report_pipeline(rep, kb, kt, "probe", sig_fn=sig_c10)
    schemas = shapes.catalogue(tier, "littleEndian")
    cb = pipeline.prepare("c10c-" + tier, schemas, cells, srcgen=("vlib.gen.probex", "driver_source"))
    ct = pipeline.run(cb, cells, "vlib.checks._cat", "plan_c10", {"cap": cap, "ok_fields": fields}, deadline_s=800 if tier == "quick" else 3000)
    _cat.report_pipeline(rep, cb, ct, "probe", sig_fn=sig_c10)
    rep.set("evaluations", rep.cov.get("ops", 0))
    rep.set("views_probed", kt.cases + ct.cases)
    rep.set("distinct_nontrivial", len(kt.distinct) + len(ct.distinct))
    rep.set("rule", "one evaluation = one guarded op on one (image, view length | corrupted header field); distinct = distinct (shape, size vector); "
                    "violation = FAULT (outside access without the handler) or HANDLER although n >= end of the addressed sub-object")
    rep.assume("'need' of an op = end of the whole sub-object it addresses (and of what must be walked to reach it): generous, so that the converse direction cannot over-demand")
    if rep.cov.get("handler", 0) == 0 and not rep.violations:
        rep.harness_error("vacuous: the assertion handler never fired")
    return rep.finish()
