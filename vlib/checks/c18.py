"""C18 -- traits and tags mirror the schema."""
import os

from .. import cxx
from ..enum import headers, kinds, shapes
from ..evidence import Report
from ..gen import build, traitx


def schemas_for(tier):
    out = []
    for bo in ("littleEndian", "bigEndian"):
        out.append(("kinds", kinds.kinds_schema(bo, presmix=False)))
        tag = "le" if bo == "littleEndian" else "be"
        out.append(("kinds-rich", kinds.decorate(kinds.kinds_schema(bo, package="rich_" + tag, presmix=False))))
    cat = shapes.catalogue(tier)
    step = max(1, len(cat) // (4 if tier == "quick" else 20))
    out += [("catalogue", s) for s, _ in cat[::step]]
    hs = headers.header_schemas()
    out += [("headers", s) for s, _ in (hs[::12] if tier == "quick" else hs)]
    out += [("dims", s) for s, _ in headers.dim_schemas(with_ref_num=True)]
    return out


def run(tier, replay=None):
    rep = Report("C18", tier, "exploration")
    cells = cxx.QUICK_CELLS if tier == "quick" else cxx.FOUR_CELLS
    todo = schemas_for(tier)
    rep.set("bounds", {"schemas": "kinds (plain and attribute-rich: description, sinceVersion, deprecated, semanticType, characterEncoding on every entity), a stride of the catalogue, header-layout and dimension-layout schemas; both byte orders for kinds",
                       "traits": "every value-valued trait of every entity printed and diffed; type-valued traits, tag lists in schema order, value_type <-> traits_tag round trips and all 11 tag-kind predicates as static_asserts",
                       "excluded": "presence='optional' on enum/set fields; `offset` on public types (expected value not fixed by the XML or SBE)",
                       "cells": [cxx.cell_name(c) for c in cells]})
    wd = cxx.workdir("c18-" + tier)

    def one(item):
        fam, s = item
        root = os.path.join(wd, s.package)
        sb = build.SchemaBuild(s, root)
        if not sb.generate():
            return fam, s, "rejected", sb.log[-800:], None
        src, exp, counts = traitx.source(s, sb.top_header())
        cpp = os.path.join(root, "traits.cpp")
        with open(cpp, "w") as fh:
            fh.write(src)
        res = []
        for cell in cells:
            exe = os.path.join(root, "traits_" + cxx.cell_name(cell))
            ok, log = cxx.build(cell, [cpp], exe, includes=[sb.inc], defines=["SBEPP_ENABLE_ASSERTS_WITH_HANDLER"])
            if not ok:
                res.append((cell, "compile", log[-2500:]))
                continue
            rc, out = cxx.sh([exe], timeout=120)
            if rc != 0:
                res.append((cell, "run", "rc=%s %s" % (rc, out[-500:])))
                continue
            got = out.splitlines()
            want = exp.splitlines()
            diffs = [(w, g) for w, g in zip(want, got) if w != g]
            if len(got) != len(want):
                diffs.append(("<%d lines>" % len(want), "<%d lines>" % len(got)))
            res.append((cell, "diff", diffs))
        return fam, s, "ok", res, counts

    ents = values = statics = 0
    for fam, s, status, res, counts in cxx.pmap(one, todo):
        if status == "rejected":
            rep.harness_error("schema %s rejected by sbeppc: %s" % (s.package, res))
            continue
        ents += counts["entities"]
        values += counts["values"] * len(cells)
        statics += counts["static_asserts"] * len(cells)
        rep.distinct("distinct_nontrivial", s.package)
        for cell, kind, detail in res:
            cn = cxx.cell_name(cell)
            if kind == "compile":
                first = [l for l in detail.splitlines() if "error" in l][:3]
                what = "static-assert" if "static assertion" in detail or "static_assert" in detail else "compile-error"
                rep.violation("traits:%s:%s" % (what, fam), {"schema": s.package, "cell": cn,
                              "msg": "%s: %s" % (s.package, " | ".join(first) or detail[-600:]), "log": detail})
            elif kind == "run":
                rep.harness_error("%s: %s" % (s.package, detail))
            else:
                for w, g in detail[:50]:
                    trait = w.split("|")[1].split("=")[0] if "|" in w else "?"
                    path = w.split("|")[0]
                    ent_kind = "types" if path.startswith("types") else ("messages" if path.startswith("messages") else "schema")
                    rep.violation("traits:value:%s:%s:%s" % (fam, ent_kind, trait),
                                  {"schema": s.package, "cell": cn, "msg": "%s: want %s got %s" % (s.package, w, g)})
        if len(rep.cov["samples"]) < 3:
            rep.sample({"schema": s.package, "family": fam, "entities": counts["entities"]})
    rep.set("evaluations", values + statics)
    rep.set("entities", ents)
    rep.set("trait_values_compared", values)
    rep.set("static_asserts", statics)
    rep.set("rule", "one evaluation = one trait value or one static fact of one entity on one cell; distinct = distinct schemas; expected records come from vlib/gen/traitx.py (IR + SBE derivation rules)")
    if values == 0 and not rep.violations:
        rep.harness_error("vacuous")
    return rep.finish()
