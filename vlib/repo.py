"""Content-addressed builds of sbeppc (and anything else) from the repository's *current working tree*.

Every check starts by hashing /repo's sources; a changed tree changes the key and forces a rebuild,
an unchanged tree reuses /verif/.cache/<key>/.  Nothing lives under /tmp.
"""
import fcntl
import hashlib
import os
import shutil
import subprocess
import sys
import time

VERIF = os.path.dirname(os.path.dirname(os.path.abspath(__file__)))
REPO = os.environ.get("VERIF_REPO", "/repo")
CACHE = os.environ.get("VERIF_CACHE", os.path.join(VERIF, ".cache"))
CONDA = "/root/miniconda"
NPROC = int(os.environ.get("VERIF_JOBS", str(os.cpu_count() or 4)))

SBEPPC_SRC = os.path.join(REPO, "sbeppc", "src")
SBEPP_SRC = os.path.join(REPO, "sbepp", "src")
SBEPP_HPP = os.path.join(SBEPP_SRC, "sbepp", "sbepp.hpp")


def _hash_tree(roots, extra=b""):
    h = hashlib.sha256()
    for root in roots:
        for d, dirs, files in sorted(os.walk(root)):
            dirs.sort()
            for f in sorted(files):
                p = os.path.join(d, f)
                h.update(os.path.relpath(p, root).encode())
                h.update(b"\0")
                with open(p, "rb") as fh:
                    h.update(fh.read())
                h.update(b"\0")
    h.update(extra)
    return h.hexdigest()[:20]


_tree_key = None


def tree_key():
    """hash of every source file the checks depend on (compiler + run-time library)"""
    global _tree_key
    if _tree_key is None:
        _tree_key = _hash_tree([SBEPPC_SRC, SBEPP_SRC])
    return _tree_key


def lib_key():
    return _hash_tree([SBEPP_SRC])


class Lock:
    def __init__(self, path):
        self.path = path

    def __enter__(self):
        os.makedirs(os.path.dirname(self.path), exist_ok=True)
        self.fh = open(self.path, "w")
        fcntl.flock(self.fh, fcntl.LOCK_EX)
        return self

    def __exit__(self, *a):
        fcntl.flock(self.fh, fcntl.LOCK_UN)
        self.fh.close()


def cache_dir(*parts):
    d = os.path.join(CACHE, *parts)
    os.makedirs(d, exist_ok=True)
    return d


BUILD_INFO = """#include <sbepp/sbeppc/build_info.hpp>
namespace sbepp::sbeppc { std::string_view build_info::get_version() { return "%s"; } }
"""


def _version():
    # project(sbepp VERSION x.y.z) in the top CMakeLists
    import re
    try:
        txt = open(os.path.join(REPO, "CMakeLists.txt")).read()
        m = re.search(r"VERSION\s+(\d+\.\d+\.\d+)", txt)
        if m:
            return m.group(1)
    except OSError:
        pass
    return "0.0.0"


VARIANTS = {
    # asserts live, libstdc++ assertions on
    "dbg": ["g++", "-std=c++17", "-O0", "-g0", "-D_GLIBCXX_ASSERTIONS"],
    "san": ["clang++", "-std=c++17", "-O1", "-gline-tables-only", "-fsanitize=address,undefined",
            "-fno-sanitize-recover=undefined", "-fno-omit-frame-pointer", "-D_GLIBCXX_ASSERTIONS"],
}


def sbeppc(variant="dbg"):
    """path of an sbeppc binary built from the current working tree"""
    key = _hash_tree([SBEPPC_SRC, SBEPP_SRC], (variant + " ".join(VARIANTS[variant]) + ("+fmt-header-only" if variant == "san" else "")).encode())
    d = cache_dir("sbeppc-%s-%s" % (variant, key))
    exe = os.path.join(d, "sbeppc")
    if os.path.exists(exe):
        return exe
    with Lock(os.path.join(d, ".lock")):
        if os.path.exists(exe):
            return exe
        t0 = time.time()
        bi = os.path.join(d, "build_info.cpp")
        with open(bi, "w") as fh:
            fh.write(BUILD_INFO % _version())
        # the sanitized variant compiles fmt header-only: a read of freed memory *inside* the formatter (a dangling
        # string_view handed to fmt) is invisible when libfmt.so is not instrumented (found necessary by mutant c09d)
        fmt_flags = ["-DFMT_HEADER_ONLY"] if variant == "san" else ["-DFMT_SHARED"]
        fmt_libs = [] if variant == "san" else ["-Wl,-rpath," + CONDA + "/lib", CONDA + "/lib/libfmt.so"]
        cmd = VARIANTS[variant] + fmt_flags + [
            "-I" + SBEPPC_SRC, "-I" + SBEPP_SRC, "-isystem", CONDA + "/include",
            os.path.join(SBEPPC_SRC, "sbepp", "sbeppc", "main.cpp"), bi] + fmt_libs + [
            "/usr/lib/x86_64-linux-gnu/libpugixml.so", "-o", exe + ".tmp"]
        r = subprocess.run(cmd, stdout=subprocess.PIPE, stderr=subprocess.STDOUT, text=True)
        if r.returncode != 0:
            sys.stderr.write(r.stdout[-4000:])
            raise SystemExit("HARNESS-ERROR: sbeppc (%s) does not build from %s" % (variant, REPO))
        os.rename(exe + ".tmp", exe)
        sys.stderr.write("[repo] built sbeppc-%s in %.0fs\n" % (variant, time.time() - t0))
    return exe


SAN_ENV = {"ASAN_OPTIONS": "detect_leaks=0:abort_on_error=0:exitcode=99",
           "UBSAN_OPTIONS": "print_stacktrace=0:halt_on_error=1:exitcode=98"}


def run_sbeppc(schema, out_dir, variant="dbg", extra=(), timeout=60, env=None, cwd=None):
    """-> (returncode, stdout+stderr text).  returncode < 0: signal.  None: timeout."""
    exe = sbeppc(variant)
    e = dict(os.environ)
    e.update(SAN_ENV)
    if env:
        e.update(env)
    cmd = [exe] + list(extra)
    if out_dir is not None:
        cmd += ["--output-dir", out_dir]
    if schema is not None:
        cmd += [schema]
    try:
        r = subprocess.run(cmd, stdout=subprocess.PIPE, stderr=subprocess.STDOUT, env=e, cwd=cwd,
                           timeout=timeout)
        return r.returncode, r.stdout.decode("utf-8", "replace")
    except subprocess.TimeoutExpired as ex:
        return None, (ex.stdout or b"").decode("utf-8", "replace")


def gc_cache(max_age_s=2 * 3600):
    """drop cache entries that belong to other trees and have not been used recently (disk is limited)"""
    if not os.path.isdir(CACHE):
        return
    cur = tree_key()
    for name in os.listdir(CACHE):
        p = os.path.join(CACHE, name)
        try:
            if name.startswith("work-") and name != "work-" + cur:
                if time.time() - os.path.getmtime(p) > max_age_s:
                    shutil.rmtree(p, ignore_errors=True)
            elif name.startswith("sbeppc-"):
                if time.time() - os.path.getatime(os.path.join(p, "sbeppc")) > 4 * max_age_s:
                    shutil.rmtree(p, ignore_errors=True)
        except OSError:
            pass
