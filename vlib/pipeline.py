"""Catalogue pipeline: schemas -> sbeppc -> driver TUs (per cell) -> case streams -> results.

Work is distributed over processes per (schema chunk); each worker generates its cases from the model, pipes them
through the compiled driver(s) and returns counts + failures.  Nothing here knows about a particular property:
the `plan` callable (module-level function, picklable by name) produces the cases.
"""
import concurrent.futures as cf
import os
import time
import traceback

from . import cxx, repo
from .gen import build, walk
from .model import layout

TU_MSGS = 20    # messages per driver TU


class Built:
    def __init__(self, schema, descs, root):
        self.schema, self.descs, self.root = schema, descs, root
        self.sb = build.SchemaBuild(schema, root)
        self.accepted = None
        self.rmsgs = None
        self.tus = []          # list of (first message index, [rmsgs], {cellname: exe})
        self.errors = []       # (kind, detail)


def _prepare(args):
    """generate headers + compile every TU for every cell (one schema); returns a picklable summary"""
    schema, descs, root, cells, want, defines, srcgen = args
    b = Built(schema, descs, root)
    try:
        ok = b.sb.generate()
        b.accepted = ok
        if not ok:
            b.errors.append(("sbeppc-rejected", "rc=%s %s" % (b.sb.rc, b.sb.log[-1500:])))
            return b
        b.rmsgs = layout.Resolver(schema).messages()
        for i in range(0, len(b.rmsgs), TU_MSGS):
            chunk = b.rmsgs[i:i + TU_MSGS]
            if srcgen:
                import importlib
                src = getattr(importlib.import_module(srcgen[0]), srcgen[1])(schema, chunk, b.sb.top_header())
            else:
                src = build.driver_source(schema, chunk, b.sb.top_header(), want=want)
            hdrs = b"".join(open(os.path.join(cxx.CXXDIR, h), "rb").read() for h in ("drv.hpp", "harness.hpp", "cx.hpp", "px.hpp", "rec.hpp"))
            dg = cxx.src_digest(src, hdrs, defines)
            cpp = os.path.join(root, "drv_%d_%s.cpp" % (i, dg))
            if not os.path.exists(cpp):
                with open(cpp, "w") as fh:
                    fh.write(src)
            exes = {}
            for cell in cells:
                exe = os.path.join(root, "drv_%d_%s_%s" % (i, dg, cxx.cell_name(cell)))
                if not os.path.exists(exe):
                    ok, log = cxx.build(cell, [cpp], exe, includes=[b.sb.inc], defines=defines)
                    if not ok:
                        b.errors.append(("driver-compile-error:" + cxx.cell_name(cell),
                                         "messages %s: %s" % ([m.name for m in chunk], log[-2500:])))
                        continue
                exes[cxx.cell_name(cell)] = exe
            b.tus.append((i, len(chunk), exes))
    except Exception:
        b.errors.append(("harness-exception", traceback.format_exc()[-3000:]))
    b.rmsgs = None   # not picklable cheaply; workers re-resolve
    return b


def prepare(name, schemas, cells, want=("dump", "enc"), defines=("SBEPP_ENABLE_ASSERTS_WITH_HANDLER",), jobs=None,
            srcgen=None):
    """schemas: list of (Schema, descs). -> list of Built (in order)"""
    base = cxx.workdir(name)
    args = [(s, d, os.path.join(base, s.package), list(cells), tuple(want), list(defines), srcgen) for s, d in schemas]
    with cf.ProcessPoolExecutor(max_workers=jobs or repo.NPROC) as ex:
        return list(ex.map(_prepare, args, chunksize=1))


class RunResult:
    def __init__(self):
        self.cases = 0
        self.ok = 0
        self.fails = []        # (case id, detail, meta)
        self.counters = {}
        self.errors = []
        self.samples = []
        self.distinct = set()


def _run_schema(args):
    built, cells, plan_mod, plan_fn, plan_kw, deadline = args
    import importlib
    res = RunResult()
    try:
        plan = getattr(importlib.import_module(plan_mod), plan_fn)
        rmsgs = layout.Resolver(built.schema).messages()
        for (first, count, exes) in built.tus:
            if time.time() > deadline:
                res.errors.append(("deadline", built.schema.package))
                break
            lines = []
            meta = {}
            for mi in range(count):
                rm = rmsgs[first + mi]
                plan(built.schema, rm, mi, built.descs[first + mi], lines, meta, res,
                     **{k: v for k, v in plan_kw.items() if k != "ok_fields"})
            if not lines:
                continue
            data = ("\n".join(lines) + "\n").encode()
            for cell in cells:
                cn = cxx.cell_name(cell)
                exe = exes.get(cn)
                if exe is None:
                    continue
                rc, out = cxx.sh([exe], input=data, timeout=3600)
                ok, fails, done = build.parse_results(out)
                res.cases += len(ok) + len(fails)
                res.ok += len(ok)
                if rc != 0 or not done:
                    res.errors.append(("driver-run", "%s rc=%s tail=%s" % (exe, rc, out[-500:])))
                if len(ok) + len(fails) != len(meta):
                    res.errors.append(("driver-count", "%s: %d results for %d cases" % (exe, len(ok) + len(fails), len(meta))))
                for cid, toks in ok.items():
                    for k, v in zip(plan_kw.get("ok_fields", ()), toks):
                        res.counters[k] = res.counters.get(k, 0) + int(v)
                for cid, detail in fails.items():
                    m = dict(meta.get(cid, {}))
                    m["cell"] = cn
                    m["schema"] = built.schema.package
                    res.fails.append((cid, detail, m))
    except Exception:
        res.errors.append(("harness-exception", traceback.format_exc()[-3000:]))
    return res


def run(builts, cells, plan_mod, plan_fn, plan_kw=None, deadline_s=3000, jobs=None):
    deadline = time.time() + deadline_s
    args = [(b, list(cells), plan_mod, plan_fn, plan_kw or {}, deadline) for b in builts if b.accepted and b.tus]
    total = RunResult()
    with cf.ProcessPoolExecutor(max_workers=jobs or repo.NPROC) as ex:
        for r in ex.map(_run_schema, args, chunksize=1):
            total.cases += r.cases
            total.ok += r.ok
            total.fails += r.fails
            total.errors += r.errors
            for k, v in r.counters.items():
                total.counters[k] = total.counters.get(k, 0) + v
            if len(total.samples) < 6:
                total.samples += r.samples[:2]
            total.distinct |= r.distinct
    return total
