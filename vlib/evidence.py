"""Evidence files, VIOLATION / KNOWN-FINDING lines, replay artefacts, known findings."""
import hashlib
import json
import os
import sys
import time

from . import repo

VERIF = repo.VERIF
KNOWN_FILE = os.path.join(VERIF, "known_findings.json")


def load_known(pid):
    try:
        data = json.load(open(KNOWN_FILE))
    except FileNotFoundError:
        return []
    return [e for e in data.get("findings", []) if e.get("property") == pid and e.get("status") == "known"]


class Report:
    """Collects what one run of one check covered.

    A violation carries a *signature* string (the specific failing input class / call site).  If
    known_findings.json lists that signature for this property with status "known", the run prints a
    KNOWN-FINDING line instead of a VIOLATION; anything else is a VIOLATION (exit 1)."""

    def __init__(self, pid, tier, level):
        self.pid, self.tier, self.level = pid, tier, level
        self.t0 = time.time()
        self.seed = int(os.environ.get("VERIF_SEED", "0") or 0)
        self.cov = {"samples": []}
        self.assumptions = []
        self.violations = []      # (sig, case)
        self.known_hits = {}      # sig -> count
        self.known = {e["signature"]: e for e in load_known(pid)}
        self.caps = []
        self.exhaustive = True
        self.harness_errors = []
        self._distinct = {}

    # ---- counters
    def add(self, key, n=1):
        self.cov[key] = self.cov.get(key, 0) + n

    def set(self, key, v):
        self.cov[key] = v

    def distinct(self, key, item):
        self._distinct.setdefault(key, set()).add(item)

    def sample(self, x, limit=6):
        if len(self.cov["samples"]) < limit:
            self.cov["samples"].append(x)

    def cap(self, what):
        self.caps.append(what)
        self.exhaustive = False

    def assume(self, s):
        if s not in self.assumptions:
            self.assumptions.append(s)

    def harness_error(self, msg):
        self.harness_errors.append(msg)

    # ---- violations
    def violation(self, sig, case):
        """case: json-able dict sufficient to replay; sig: the specific failing class"""
        if sig in self.known:
            self.known_hits[sig] = self.known_hits.get(sig, 0) + 1
            return False
        self.violations.append((sig, case))
        return True

    def _write_replay(self, sig, case):
        d = os.path.join(VERIF, "replays", self.pid)
        os.makedirs(d, exist_ok=True)
        blob = json.dumps({"property": self.pid, "signature": sig, "case": case}, indent=1, sort_keys=True,
                          default=str)
        p = os.path.join(d, hashlib.sha256(blob.encode()).hexdigest()[:16] + ".json")
        with open(p, "w") as fh:
            fh.write(blob)
        return p

    def finish(self):
        for k, s in self._distinct.items():
            self.cov[k] = len(s)
        self.cov["exhaustive"] = bool(self.exhaustive)
        if self.caps:
            self.cov["caps_hit"] = self.caps
        if self.known_hits:
            self.cov["known_findings_hit"] = self.known_hits
        if self.violations:
            cnt = {}
            for sig, _ in self.violations:
                cnt[sig] = cnt.get(sig, 0) + 1
            self.cov["violation_signatures"] = dict(sorted(cnt.items(), key=lambda kv: -kv[1])[:80])
        ev = {"property_id": self.pid, "tier": self.tier, "seed": self.seed, "level": self.level,
              "coverage": self.cov, "assumptions": self.assumptions,
              "wall_s": round(time.time() - self.t0, 2), "violations": len(self.violations)}
        if self.harness_errors:
            ev["harness_errors"] = self.harness_errors[:20]
        # mutant trials (tools/try_mutant.sh) run against a scratch tree and must not overwrite the registered evidence
        evdir = os.path.join(VERIF, "evidence") if not os.environ.get("VERIF_NO_EVIDENCE") else os.path.join(repo.CACHE, "trial-evidence")
        os.makedirs(evdir, exist_ok=True)
        with open(os.path.join(evdir, self.pid + ".json"), "w") as fh:
            json.dump(ev, fh, indent=1, default=str)
            fh.write("\n")
        for sig, n in sorted(self.known_hits.items()):
            print("KNOWN-FINDING: property=%s %s (%d cases) -- %s" % (
                self.pid, sig, n, self.known[sig].get("what", "")))
        seen = set()
        for sig, case in self.violations:
            if sig in seen:
                continue
            seen.add(sig)
            if len(seen) > 25:
                break
            p = self._write_replay(sig, case)
            print("VIOLATION property=%s replay=%s" % (self.pid, p))
            print("  signature: %s" % sig)
            msg = case.get("msg") if isinstance(case, dict) else None
            if msg:
                print("  " + str(msg)[:600])
        summary = {k: v for k, v in self.cov.items() if k != "samples"}
        print("[%s %s] %s wall=%.1fs violations=%d" % (self.pid, self.tier, json.dumps(summary, default=str)[:900],
                                                       time.time() - self.t0, len(self.violations)))
        sys.stdout.flush()
        if self.harness_errors:
            for m in self.harness_errors[:10]:
                print("HARNESS-ERROR: " + m)
        if self.violations:
            return 1
        return 2 if self.harness_errors else 0
