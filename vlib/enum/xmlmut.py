"""Structure-aware mutations of an XML schema tree (DESIGN.md 2.3 `xmlmut`): every applicable single mutation at every
node, simplest first.  A mutant is (description, operator class, xml text)."""
import copy
import xml.etree.ElementTree as ET

SBE_NS = "http://fixprotocol.io/2016/sbe"
ET.register_namespace("sbe", SBE_NS)
ET.register_namespace("xi", "http://www.w3.org/2001/XInclude")

TOKENS = ["", "-1", "0", "1", "255", "256", "65535", "65536", "4294967296", "18446744073709551615", "18446744073709551616",
          "08", "+1", " 1", "0x10", "1e3", "NaN", "abc", "n" * 70, "{", "x{y}", "{}", "%s%n"]
TOKENS_QUICK = ["", "-1", "0", "256", "18446744073709551616", "08", "abc", "NaN", "x{y}"]
TAGS = ["types", "type", "composite", "enum", "set", "ref", "validValue", "choice", "message", "field", "group", "data", "include",
        "messageSchema"]
REF_ATTRS = ["type", "encodingType", "dimensionType", "valueRef", "headerType", "primitiveType"]


# every attribute name the SBE schema language / sbeppc knows: "attr-add" puts each one on every element that lacks it
ATTR_VOCAB = ["name", "id", "type", "primitiveType", "presence", "valueRef", "offset", "length", "minValue", "maxValue", "nullValue",
              "sinceVersion", "deprecated", "description", "semanticType", "characterEncoding", "encodingType", "dimensionType",
              "blockLength", "headerType", "byteOrder", "package", "version", "semanticVersion", "href"]
ENUM_VALUES = {"presence": ["constant", "optional", "required"], "byteOrder": ["bigEndian", "littleEndian"],
               "primitiveType": ["char", "int8", "uint16", "int64", "uint64", "float", "double"]}
NUMERIC_ATTRS = {"id", "offset", "length", "sinceVersion", "deprecated", "blockLength", "version", "minValue", "maxValue", "nullValue"}


def added_values(attr, names, rich):
    vals = ["abc"]
    if attr in NUMERIC_ATTRS:
        vals += ["0"] + (["-1", "18446744073709551616", ""] if rich else [])
    if attr == "presence":
        vals = ["constant", "optional", "required"] + (["abc"] if rich else [])
    if attr == "valueRef":
        dotted = [n for n in names if "." in n]
        vals += dotted[:1] + ([dotted[0].split(".")[0] + ".nope", "."] if dotted else []) + ([".x", "x."] if rich else [])
    if attr in ("type", "encodingType", "dimensionType", "headerType", "primitiveType"):
        vals += (["uint8", "char"] if rich else ["uint8"]) + [n for n in names if "." not in n][:(3 if rich else 1)]
    if attr == "byteOrder":
        vals += ["bigEndian"]
    return vals


def local(tag):
    return tag.rsplit("}", 1)[-1]


def serialize(root):
    return '<?xml version="1.0" encoding="UTF-8"?>\n' + ET.tostring(root, encoding="unicode") + "\n"


def parse(text):
    return ET.fromstring(text)


def nodes(root):
    """list of (path indices, element) in document order"""
    out = []

    def rec(e, path):
        out.append((path, e))
        for i, c in enumerate(list(e)):
            rec(c, path + (i,))

    rec(root, ())
    return out


def at(root, path):
    e = root
    for i in path:
        e = list(e)[i]
    return e


def named_entities(root):
    names = []
    for _, e in nodes(root):
        n = e.get("name")
        if n and local(e.tag) in ("type", "composite", "enum", "set"):
            names.append(n)
            if local(e.tag) == "enum":
                for v in e:
                    if v.get("name"):
                        names.append("%s.%s" % (n, v.get("name")))
    return names


def mutants(text, quick=False, rich_add=None, add=True):
    root = parse(text)
    all_nodes = nodes(root)
    names = named_entities(root)
    toks = TOKENS_QUICK if quick else TOKENS

    def clone():
        return copy.deepcopy(root)

    def label(path, e):
        return "%s[%s]%s" % (local(e.tag), "/".join(map(str, path)), ("@" + e.get("name")) if e.get("name") else "")

    for path, e in all_nodes:
        lab = label(path, e)
        tagname = local(e.tag)
        for a in list(e.attrib):
            r = clone()
            del at(r, path).attrib[a]
            yield "%s: delete attribute %s" % (lab, a), "attr-delete:%s.%s" % (tagname, local(a)), serialize(r)
            for t in list(toks) + ENUM_VALUES.get(local(a), []):     # garbage tokens, and every *valid* keyword of an enumerated attribute
                if e.get(a) == t:
                    continue
                r = clone()
                at(r, path).set(a, t)
                yield "%s: %s=%r" % (lab, a, t), "attr-garble:%s.%s" % (tagname, local(a)), serialize(r)
        present = {local(a) for a in e.attrib}
        for a in (ATTR_VOCAB if add else []):
            if a in present:
                continue
            for t in added_values(a, names, (not quick) if rich_add is None else rich_add):
                r = clone()
                at(r, path).set(a, t)
                yield "%s: add %s=%r" % (lab, a, t), "attr-add:%s.%s" % (tagname, a), serialize(r)
        for a in list(e.attrib):
            if local(a) in REF_ATTRS:
                for n in names if not quick else names[:12]:
                    if e.get(a) == n:
                        continue
                    r = clone()
                    at(r, path).set(a, n)
                    yield "%s: retarget %s -> %s" % (lab, a, n), "retarget:%s.%s" % (tagname, local(a)), serialize(r)
        if add and not (e.text and e.text.strip()):
            for t in ("abc", "1"):          # text where the schema language expects none (or a constant)
                r = clone()
                at(r, path).text = t
                yield "%s: add text %r" % (lab, t), "text-add:%s" % tagname, serialize(r)
        if add:
            for t in TAGS:                  # a minimal child of every known tag, appended and prepended
                for where in ("append", "prepend"):
                    r = clone()
                    el = at(r, path)
                    ch = ET.Element(t, {"name": "zz9", "id": "99", "type": "uint8", "primitiveType": "uint8", "encodingType": "uint8"})
                    if where == "append":
                        el.append(ch)
                    else:
                        el.insert(0, ch)
                    yield "%s: %s child <%s>" % (lab, where, t), "child-add:%s+%s" % (tagname, t), serialize(r)
        if e.text and e.text.strip():
            for t in toks:
                r = clone()
                at(r, path).text = t
                yield "%s: text=%r" % (lab, t), "text-garble:%s" % tagname, serialize(r)
        if not path:
            continue
        parent_path, idx = path[:-1], path[-1]
        r = clone()
        p = at(r, parent_path)
        p.remove(list(p)[idx])
        yield "%s: delete element" % lab, "elem-delete:%s" % tagname, serialize(r)
        r = clone()
        p = at(r, parent_path)
        p.insert(idx, copy.deepcopy(list(p)[idx]))
        yield "%s: duplicate element" % lab, "elem-duplicate:%s" % tagname, serialize(r)
        r = clone()
        p = at(r, parent_path)
        ch = list(p)
        if idx + 1 < len(ch):
            a_, b_ = ch[idx], ch[idx + 1]
            p.remove(b_)
            p.insert(idx, b_)
            yield "%s: swap with next sibling" % lab, "elem-swap:%s" % tagname, serialize(r)
        if idx > 0:
            r = clone()
            p = at(r, parent_path)
            ch = list(p)
            me = ch[idx]
            p.remove(me)
            ch[idx - 1].append(me)
            yield "%s: move into previous sibling" % lab, "elem-reparent-down:%s" % tagname, serialize(r)
        if len(parent_path) >= 1:
            r = clone()
            p = at(r, parent_path)
            gp = at(r, parent_path[:-1])
            me = list(p)[idx]
            p.remove(me)
            gp.append(me)
            yield "%s: move to grandparent" % lab, "elem-reparent-up:%s" % tagname, serialize(r)
        for t in TAGS:
            if t == tagname:
                continue
            r = clone()
            el = at(r, path)
            el.tag = ("{%s}%s" % (SBE_NS, t)) if e.tag.startswith("{") else t
            yield "%s: rename element to <%s>" % (lab, t), "elem-rename:%s->%s" % (tagname, t), serialize(r)
        r = clone()
        el = at(r, path)
        for c in list(el):
            el.remove(c)
        el.text = None
        if len(list(e)) or (e.text and e.text.strip()):
            yield "%s: empty element" % lab, "elem-empty:%s" % tagname, serialize(r)
    # truncation at every line end
    lines = text.splitlines(keepends=True)
    for i in range(1, len(lines)):
        yield "truncate after line %d" % i, "truncate", "".join(lines[:i])


RAW_INPUTS = [
    ("empty file", b""),
    ("one line break", b"\n"),
    ("blank lines", b"\n\n  \n\n"),
    ("declaration and a line break", b'<?xml version="1.0"?>\n'),
    ("valid root then blank lines", b'<?xml version="1.0"?>\n<messageSchema package="p" id="1" version="0"/>\n\n\n'),
    ("NUL bytes", b"\0" * 64),
    ("only BOM", b"\xef\xbb\xbf"),
    ("BOM + junk", b"\xef\xbb\xbf<"),
    ("not xml", b"hello world"),
    ("utf-16", '<?xml version="1.0" encoding="UTF-16"?><a/>'.encode("utf-16")),
    ("deep nesting", b"<a>" * 100000),
    ("deep nesting closed", b"<a>" * 20000 + b"</a>" * 20000),
    ("wrong root", b'<?xml version="1.0"?><root/>'),
    ("empty messageSchema", b'<?xml version="1.0"?><messageSchema/>'),
    ("messageSchema without types", b'<?xml version="1.0"?><messageSchema package="p" id="1" version="0"><message name="m" id="1"/></messageSchema>'),
    ("huge attribute", b'<?xml version="1.0"?><messageSchema package="' + b"p" * 1000000 + b'" id="1" version="0"/>'),
    ("entity bomb-ish", b'<?xml version="1.0"?><!DOCTYPE a [<!ENTITY x "xxxxxxxxxx">]><messageSchema package="&x;&x;&x;" id="1" version="0"/>'),
]
