"""C08 enumerator: every applicable position x every rule-breaking edit of a valid base schema, each next to its valid
boundary twin.  An edit is (rule id, position label, verdict 'reject'|'accept', Schema)."""
import copy

from ..model import ir, layout
from ..model.ir import PRIMS, psize

KEYWORDS = ["class", "int", "new", "namespace"]
# non-symbolic names: the offending character at the first, an inner and the last position x several character classes
# (a digit is only wrong in front), the one-character and the empty name; GOOD_NAMES are their valid twins
BAD_NAMES = ["1abc", "a-b", "a b", "", "-abc", ".abc", " abc", "+abc", "#abc", "-", "a.b", "ab-", "ab ", "ab.", "a\u00e9", "\u00e9a", "9"]
GOOD_NAMES = ["_abc", "a1", "a_b", "A9_"]


# every C++23 keyword and alternative token ([lex.key] tables), written down independently of sbeppc's list
ALL_KEYWORDS = """alignas alignof asm auto bool break case catch char char8_t char16_t char32_t class concept const consteval
constexpr constinit const_cast continue co_await co_return co_yield decltype default delete do double dynamic_cast else enum
explicit export extern false float for friend goto if inline int long mutable namespace new noexcept nullptr operator private
protected public register reinterpret_cast requires return short signed sizeof static static_assert static_cast struct switch
template this thread_local throw true try typedef typeid typename union unsigned using virtual void volatile wchar_t while
and and_eq bitand bitor compl not not_eq or or_eq xor xor_eq""".split()
KEYWORD_TWINS = ["Class", "INT", "int_", "_new", "xor1", "co_await_"]      # not keywords: case differs / longer


def _name_cases(n_bad=None):
    """(name, class label, verdict)"""
    out = [(k, "keyword", "reject") for k in KEYWORDS[:2]]
    out += [(b, "not-symbolic", "reject") for b in (BAD_NAMES if n_bad is None else BAD_NAMES[:n_bad])]
    out += [(g, "symbolic-twin", "accept") for g in GOOD_NAMES]
    return out


def _levels(schema):
    """(label, level object, is_message)"""
    out = []

    def rec(lv, label):
        out.append((label, lv))
        for g in lv.groups:
            rec(g, label + "." + g.name)

    for m in schema.msgs:
        rec(m, m.name)
    return out


def _find_level(schema, label):
    parts = label.split(".")
    lv = [m for m in schema.msgs if m.name == parts[0]][0]
    for p in parts[1:]:
        lv = [g for g in lv.groups if g.name == p][0]
    return lv


def _rlevel(res, schema, label):
    parts = label.split(".")
    rm = [m for m in res.messages() if m.name == parts[0]][0]
    rl = rm.level
    for p in parts[1:]:
        rl = [g for g in rl.groups if g.name == p][0].level
    return rl


def _composites(schema):
    """(label path, composite object) for public and inline composites; path = list of names from the public type"""
    out = []

    def rec(c, path):
        out.append((path, c))
        for m in c.members:
            if isinstance(m, ir.Comp):
                rec(m, path + [m.name])

    for t in schema.types:
        if isinstance(t, ir.Comp):
            rec(t, [t.name])
    return out


def _find_comp(schema, path):
    c = schema.type_by_name(path[0])
    for p in path[1:]:
        c = [m for m in c.members if m.name == p][0]
    return c


def _retarget(s, old, new):
    """every reference to the public type `old` (field/data/dimension types, refs, encoding types, valueRef prefixes)"""
    def vr(x):
        if getattr(x, "value_ref", None) and x.value_ref.split(".")[0] == old:
            x.value_ref = new + "." + x.value_ref.split(".", 1)[1]

    for _, lv in _levels(s):
        for f in lv.fields:
            if f.type == old:
                f.type = new
            vr(f)
        for d in lv.data:
            if d.type == old:
                d.type = new
        if getattr(lv, "dim", None) == old:
            lv.dim = new
    for _, c in _composites(s):
        for m in c.members:
            if isinstance(m, ir.Ref) and m.type == old:
                m.type = new
            if isinstance(m, (ir.Enum, ir.SetT)) and m.enc == old:
                m.enc = new
            vr(m)
    for t in s.types:
        if isinstance(t, (ir.Enum, ir.SetT)) and t.enc == old:
            t.enc = new
        vr(t)


def _retarget_value(s, enum, oldv, newv):
    def vr(x):
        if getattr(x, "value_ref", None) == "%s.%s" % (enum, oldv):
            x.value_ref = "%s.%s" % (enum, newv)

    for _, lv in _levels(s):
        for f in lv.fields:
            vr(f)
    for _, c in _composites(s):
        for m in c.members:
            vr(m)
    for t in s.types:
        vr(t)


def type_range(prim):
    size, _, signed, fp, _ = PRIMS[prim]
    if fp:
        return None
    bits = 8 * size
    if signed:
        return -(1 << (bits - 1)), (1 << (bits - 1)) - 1
    return 0, (1 << bits) - 1


def edits(base):
    """yield (rule, position, verdict, schema)"""
    res = layout.Resolver(base)
    protected = {base.header_name(), "groupSizeEncoding", "varDataEncoding", "varStrEncoding"}

    def variant():
        return copy.deepcopy(base)

    yield "base", "-", "accept", variant()

    # ---- R1 field offsets, R2 block lengths, R10 member order, duplicate member names
    for label, lv in _levels(base):
        rl = _rlevel(res, base, label)
        end = 0
        for i, (f, rf) in enumerate(zip(lv.fields, rl.fields)):
            if rf.node.kind == "const":
                continue
            if end >= 1:
                # every offset below the minimum (0 .. end-1; capped at the 12 nearest plus 0 and 1), and the minimum itself
                for off, verdict in [(o, "reject") for o in sorted(set(range(max(0, end - 12), end)) | {0, min(1, end - 1)})] + [(end, "accept")]:
                    s = variant()
                    tl = _find_level(s, label)
                    tl.fields[i].offset = off
                    # keep later explicit offsets consistent with the moved field
                    yield "offset-below-minimum:field", "%s.%s" % (label, f.name), verdict, s
            end = rf.offset + rf.node.size
        size = rl.min_block_length
        if size >= 1:
            for bl, verdict in ((size - 1, "reject"), (size, "accept"), (size + 3, "accept")):
                s = variant()
                _find_level(s, label).block_length = bl
                yield "blockLength-below-content:%s" % ("message" if "." not in label else "group"), label, verdict, s
        if lv.fields and lv.groups:
            s = variant()
            tl = _find_level(s, label)
            # order is a property of the XML: render a field after the groups by moving it into a trailing pseudo level
            tl._field_after_groups = True
            yield "member-order:field-after-group", label, "reject", s
        names = [f.name for f in lv.fields] + [g.name for g in lv.groups] + [d.name for d in lv.data]
        if len(names) >= 2:
            s = variant()
            tl = _find_level(s, label)
            members = tl.fields + tl.groups + tl.data
            members[-1].name = members[0].name
            yield "duplicate-name:level-member", label, "reject", s
        for kw, cls, verdict in _name_cases():
            for kind in ("fields", "groups", "data"):
                if getattr(lv, kind):
                    s = variant()
                    getattr(_find_level(s, label), kind)[0].name = kw
                    yield "invalid-name:%s:%s" % (kind[:-1] if kind != "data" else "data", cls), "%s %r" % (label, kw), verdict, s

    # ---- every keyword once, rotating over the name sites of the first message level (+ non-keyword twins)
    first = [(label, lv) for label, lv in _levels(base) if "." not in label][:1]
    for label, lv in first:
        kinds_here = [k for k in ("fields", "groups", "data") if getattr(lv, k)]
        for i, kw in enumerate(ALL_KEYWORDS + KEYWORD_TWINS):
            if not kinds_here:
                break
            kind = kinds_here[i % len(kinds_here)]
            s = variant()
            getattr(_find_level(s, label), kind)[0].name = kw
            yield "invalid-name:%s:%s" % (kind[:-1] if kind != "data" else "data", "every-keyword" if kw in ALL_KEYWORDS else "keyword-twin"), \
                "%s %r" % (label, kw), ("reject" if kw in ALL_KEYWORDS else "accept"), s

    # ---- composite member offsets
    for path, c in _composites(base):
        node = res.node_of(c)
        end = 0
        for i, (m, rm) in enumerate(zip(c.members, node.members)):
            if rm.node.kind == "const":
                continue
            if end >= 1 and path[0] not in protected:
                for off, verdict in [(o, "reject") for o in sorted(set(range(max(0, end - 12), end)) | {0, min(1, end - 1)})] + [(end, "accept")]:
                    s = variant()
                    _find_comp(s, path).members[i].offset = off
                    kind = "ref" if isinstance(m, ir.Ref) else ("nested-composite-member" if len(path) > 1 else "composite-member")
                    yield "offset-below-minimum:" + kind, "%s.%s" % ("/".join(path), m.name), verdict, s
            end = rm.offset + rm.node.size

    # ---- value ranges
    for t in base.types:
        if isinstance(t, ir.T) and t.name not in protected and (t.length in (None, 1)):
            rng = type_range(t.prim)
            pres = t.presence or "required"
            if pres == "constant":
                if rng and t.prim != "char" and t.value_ref is None:
                    for v, verdict in ((rng[1] + 1, "reject"), (rng[0] - 1, "reject"), (rng[1], "accept"), (rng[0], "accept")):
                        s = variant()
                        s.type_by_name(t.name).const = str(v)
                        yield "value-not-representable:constant:%s" % t.prim, t.name, verdict, s
                continue
            attrs = ["mn", "mx"] + (["nl"] if pres == "optional" else [])
            for a in attrs:
                if rng and t.prim != "char":
                    vals = ((rng[1] + 1, "reject"), (rng[0] - 1, "reject"), (rng[1], "accept"), (rng[0], "accept"))
                elif t.prim == "float":
                    vals = (("1e39", "reject"), ("-1e39", "reject"), ("3.4e38", "accept"), ("abc", "reject"))
                elif t.prim == "double":
                    vals = (("1e309", "reject"), ("1.7e308", "accept"), ("abc", "reject"))
                else:
                    continue
                for v, verdict in vals:
                    s = variant()
                    setattr(s.type_by_name(t.name), a, str(v))
                    yield "value-not-representable:%s:%s" % ({"mn": "minValue", "mx": "maxValue", "nl": "nullValue"}[a], t.prim), t.name, verdict, s
        if isinstance(t, ir.Enum):
            p = res.enc_prim(t.enc)
            rng = type_range(p)
            if rng and p != "char":
                for v, verdict in ((rng[1] + 1, "reject"), (rng[0] - 1, "reject"), (rng[1], "accept"), (rng[0], "accept")):
                    s = variant()
                    e = s.type_by_name(t.name)
                    e.values = e.values + [("Edge", v)]
                    yield "value-not-representable:validValue:%s" % p, t.name, verdict, s
            if p == "char":
                for v, verdict in (("AB", "reject"), ("", "reject"), ("Q", "accept")):
                    s = variant()
                    e = s.type_by_name(t.name)
                    e.values = e.values + [("Edge", v)]
                    yield "value-not-representable:validValue:char", "%s %r" % (t.name, v), verdict, s
            s = variant()
            e = s.type_by_name(t.name)
            e.values = e.values + [(e.values[0][0], e.values[0][1])]
            yield "duplicate-name:validValue", t.name, "reject", s
            for kw, cls, verdict in _name_cases():
                s = variant()
                e = s.type_by_name(t.name)
                oldv = e.values[0][0]
                e.values = [(kw, e.values[0][1])] + e.values[1:]
                _retarget_value(s, t.name, oldv, kw)
                yield "invalid-name:validValue:%s" % cls, "%s %r" % (t.name, kw), verdict, s
            for enc, verdict in (("nope", "reject"), (base.header_name(), "reject"), ("float", "reject"), ("uint8", "accept")):
                s = variant()
                e = s.type_by_name(t.name)
                e.enc = enc
                e.values = [(v[0], i + 1) for i, v in enumerate(e.values)]
                yield "bad-reference:enum-encodingType", "%s -> %s" % (t.name, enc), verdict, s
        if isinstance(t, ir.SetT):
            p = res.enc_prim(t.enc)
            w = 8 * psize(p)
            for idx, verdict in ((w, "reject"), (w - 1, "accept"), (255, "reject") if w < 255 else (w - 2, "accept")):
                s = variant()
                st = s.type_by_name(t.name)
                st.choices = [c for c in st.choices if int(c[1]) != idx] + [("edge", idx)]
                yield "choice-beyond-width:%d" % w, t.name, verdict, s
            s = variant()
            st = s.type_by_name(t.name)
            st.choices = st.choices + [(st.choices[0][0], (int(st.choices[0][1]) + 1) % w)]
            yield "duplicate-name:choice", t.name, "reject", s
            for kw, cls, verdict in _name_cases():
                s = variant()
                st = s.type_by_name(t.name)
                st.choices = [(kw, st.choices[0][1])] + list(st.choices[1:])
                yield "invalid-name:choice:%s" % cls, "%s %r" % (t.name, kw), verdict, s
            for enc, verdict in (("nope", "reject"), ("int8", "reject"), ("char", "reject")):
                s = variant()
                s.type_by_name(t.name).enc = enc
                yield "bad-reference:set-encodingType", "%s -> %s" % (t.name, enc), verdict, s

    # ---- arrays
    for prim, verdict in (("int16", "reject"), ("uint32", "reject"), ("double", "reject"), ("uint8", "accept"), ("int8", "accept"), ("char", "accept")):
        s = variant()
        s.types.append(ir.T("Arr_edit", prim, length=2))
        yield "multi-byte-array:%s" % prim, "new type", verdict, s

    # ---- references
    s = variant()
    s.types.append(ir.Comp("CycA", [ir.Ref("b", "CycB")]))
    s.types.append(ir.Comp("CycB", [ir.Ref("a", "CycA")]))
    yield "cyclic-reference:length-2", "CycA<->CycB", "reject", s
    s = variant()
    s.types.append(ir.Comp("CycS", [ir.T("x", "uint8"), ir.Ref("me", "CycS")]))
    yield "cyclic-reference:self", "CycS", "reject", s
    s = variant()
    s.types.append(ir.Comp("CycA", [ir.Ref("b", "CycB")]))
    s.types.append(ir.Comp("CycB", [ir.Comp("inner", [ir.Ref("c", "CycC")])]))
    s.types.append(ir.Comp("CycC", [ir.Ref("a", "CycA")]))
    yield "cyclic-reference:length-3-through-inline", "CycA->CycB->CycC", "reject", s
    s = variant()
    s.types.append(ir.Comp("RefBad", [ir.Ref("r", "NoSuchType")]))
    yield "bad-reference:ref-unknown", "RefBad.r", "reject", s
    for label, lv in _levels(base):
        if lv.fields:
            s = variant()
            _find_level(s, label).fields[0].type = "NoSuchType"
            yield "bad-reference:field-type-unknown", label, "reject", s
        if lv.groups:
            plain = [t.name for t in base.types if isinstance(t, ir.T)]
            for dim, verdict in [("NoSuchType", "reject")] + ([(plain[0], "reject")] if plain else []):
                s = variant()
                _find_level(s, label).groups[0].dim = dim
                yield "bad-reference:dimensionType", "%s -> %s" % (label, dim), verdict, s
        if lv.data:
            for dt, verdict in (("NoSuchType", "reject"), ("groupSizeEncoding", "reject")):
                s = variant()
                _find_level(s, label).data[0].type = dt
                yield "bad-reference:data-type", "%s -> %s" % (label, dt), verdict, s
    # valueRef
    for t in base.types:
        if isinstance(t, ir.T) and t.value_ref:
            for vr, verdict in (("Nope.X", "reject"), (t.value_ref.split(".")[0] + ".Nope", "reject"), ("justname", "reject")):
                s = variant()
                s.type_by_name(t.name).value_ref = vr
                yield "bad-reference:valueRef", "%s -> %s" % (t.name, vr), verdict, s

    # ---- level headers
    hn = base.header_name()
    hdr = base.type_by_name(hn)
    for mname in ("blockLength", "templateId", "schemaId", "version"):
        s = variant()
        h = s.type_by_name(hn)
        h.members = [m for m in h.members if m.name != mname]
        yield "malformed-header:message:missing", mname, "reject", s
        for what, fn in (("array", lambda m: setattr(m, "length", 2) or setattr(m, "prim", "uint8")), ("constant", lambda m: (setattr(m, "presence", "constant"), setattr(m, "const", "1"))),
                         ("float", lambda m: setattr(m, "prim", "float"))):
            s = variant()
            m = [x for x in s.type_by_name(hn).members if x.name == mname][0]
            if isinstance(m, ir.T):
                fn(m)
                # a non-integer header member is *not* a rule sbeppc enforces (its validator says so: "strict: SBE
                # requires underlying type to be unsigned integer"): run for totality only
                yield "malformed-header:message:%s" % what, mname, ("accept-or-reject" if what == "float" else "reject"), s
    dims = {g.dim or "groupSizeEncoding" for _, lv in _levels(base) for g in lv.groups}
    for dn in sorted(dims)[:2]:
        for mname in ("blockLength", "numInGroup"):
            s = variant()
            d = s.type_by_name(dn)
            d.members = [m for m in d.members if m.name != mname]
            yield "malformed-header:group:missing", "%s.%s" % (dn, mname), "reject", s
            s = variant()
            m = [x for x in s.type_by_name(dn).members if x.name == mname][0]
            if isinstance(m, ir.T):
                m.prim, m.length = "uint8", 2
                yield "malformed-header:group:array", "%s.%s" % (dn, mname), "reject", s
    dts = {d.type for _, lv in _levels(base) for d in lv.data}
    for dn in sorted(dts)[:2]:
        for mname in ("length", "varData"):
            s = variant()
            d = s.type_by_name(dn)
            d.members = [m for m in d.members if m.name != mname]
            yield "malformed-header:data:missing", "%s.%s" % (dn, mname), "reject", s
        s = variant()
        [x for x in s.type_by_name(dn).members if x.name == "varData"][0].length = 1
        yield "malformed-header:data:varData-length-1", dn, "accept-or-reject", s
        s = variant()
        [x for x in s.type_by_name(dn).members if x.name == "length"][0].prim = "float"
        yield "malformed-header:data:length-float", dn, "accept-or-reject", s

    # ---- names of types / messages
    free = [t for t in base.types if t.name not in protected]
    if free:
        firsts = []
        for cls_ in (ir.T, ir.Enum, ir.SetT, ir.Comp):       # the first free type of every kind
            firsts += [t for t in free if isinstance(t, cls_)][:1]
        for t0 in firsts:
            for kw, cls, verdict in [(k, "keyword", "reject") for k in KEYWORDS[2:]] + _name_cases():
                s = variant()
                old = t0.name
                s.type_by_name(old).name = kw
                _retarget(s, old, kw)
                yield "invalid-name:%s:%s" % ({"T": "type", "Enum": "enum", "SetT": "set", "Comp": "composite"}[type(t0).__name__], cls), "%s -> %r" % (old, kw), verdict, s
        structural = {base.header_name()} | {getattr(lv, "dim", None) or "groupSizeEncoding" for _, lv in _levels(base)} \
            | {d.type for _, lv in _levels(base) for d in lv.data}
        # composite members (inline type / ref / nested composite)
        for path, c in _composites(base):
            if path[0] in protected or path[0] in structural or not c.members:
                continue        # header / dimension / length composites: their member names are part of other rules
            for kw, cls, verdict in _name_cases():
                s = variant()
                _find_comp(s, path).members[-1].name = kw
                yield "invalid-name:composite-member:%s" % cls, "%s %r" % ("/".join(path), kw), verdict, s
        if len(free) >= 2:
            s = variant()
            s.type_by_name(free[1].name).name = free[0].name.upper() if free[0].name.upper() != free[0].name else free[0].name.lower()
            yield "duplicate-name:type-case-insensitive", "%s vs %s" % (free[1].name, free[0].name), "reject", s
            s = variant()
            s.type_by_name(free[1].name).name = free[0].name
            yield "duplicate-name:type", free[0].name, "reject", s
    if base.msgs:
        for kw, cls, verdict in _name_cases():
            s = variant()
            s.msgs[0].name = kw
            yield "invalid-name:message:%s" % cls, repr(kw), verdict, s
        if len(base.msgs) >= 2:
            s = variant()
            s.msgs[1].name = s.msgs[0].name
            yield "duplicate-name:message", s.msgs[0].name, "reject", s
            s = variant()
            s.msgs[1].id = s.msgs[0].id
            yield "duplicate-id:message", str(s.msgs[0].id), "reject", s
    # ---- values the header fillers must write have to fit the header members
    hd = layout.RDim(res.public(hn), hn)
    for member, setter in (("templateId", lambda s, v: setattr(s.msgs[0], "id", v)), ("schemaId", lambda s, v: setattr(s, "id", v)),
                           ("version", lambda s, v: setattr(s, "version", v)), ("blockLength", lambda s, v: setattr(s.msgs[0], "block_length", v))):
        sl = hd.slot(member)
        rng = type_range(sl.prim) if sl else None
        if not rng or psize(sl.prim) == 8:
            continue
        for v, verdict in ((rng[1] + 1, "reject"), (rng[1], "accept")):
            s = variant()
            setter(s, v)
            yield "header-value-not-representable:%s" % member, "%s=%d" % (member, v), verdict, s
    for pk, verdict in (("class", "reject"), ("a.b", "accept-or-reject"), ("1x", "reject"), ("ok_name", "accept"), ("std", "reject"),
                        ("posix", "reject"), ("stdx", "accept"), ("-x", "reject"), ("x-", "reject"), ("requires", "reject")):
        s = variant()
        s.package = pk
        yield "invalid-name:schema-package", repr(pk), verdict, s
