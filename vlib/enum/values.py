"""Instance (value tree) enumeration: every group-size vector (independently per parent entry), every data length,
value vectors with address-coded bytes (all bytes of a message distinct where possible)."""
import itertools


class ByteGen:
    """address-coded value stream: consecutive bytes are distinct, so a wrong offset / byte order shows in any field"""

    def __init__(self, seed):
        self.k = seed & 0xff
        self.step = 1 if seed % 2 == 0 else 0x9d   # vector 1: different order, complemented
        self.flip = 0xff if seed % 2 else 0

    def byte(self):
        self.k = (self.k + self.step) & 0xff
        if self.k in (0x00,):       # avoid NUL-only patterns
            self.k = (self.k + self.step) & 0xff
        return self.k ^ self.flip

    def take(self, n):
        return bytes(self.byte() for _ in range(n))


def fp_safe(bits, prim):
    """avoid NaN bit patterns in address-coded vectors (NaNs are exercised separately): clear one exponent bit"""
    if prim == "float":
        if (bits >> 23) & 0xff == 0xff:
            bits &= ~(1 << 23)
    elif prim == "double":
        if (bits >> 52) & 0x7ff == 0x7ff:
            bits &= ~(1 << 52)
    return bits


def node_value(node, bg):
    if node.kind == "scalar":
        v = int.from_bytes(bg.take(node.size), "big")
        return fp_safe(v, node.prim)
    if node.kind == "array":
        return bg.take(node.size)
    if node.kind == "composite":
        return {m.name: node_value(m.node, bg) for m in node.members if m.node.kind != "const"}
    raise ValueError(node.kind)


def _at(spec, depth):
    """spec is either a tuple of ints (uniform) or a list of tuples per depth (last one repeats)"""
    if spec and isinstance(spec[0], int):
        return spec
    return spec[min(depth, len(spec) - 1)]


def size_vectors(rlevel, group_sizes, data_lens, depth=0):
    """all 'shape' trees of a level: {"g": {name: [shape,...]}, "d": {name: len}}; sizes may differ per depth"""
    gopts = []
    for g in rlevel.groups:
        inner = list(size_vectors(g.level, group_sizes, data_lens, depth + 1))
        opts = []
        for n in _at(group_sizes, depth):
            for combo in itertools.product(inner, repeat=n):
                opts.append(list(combo))
        gopts.append(opts)
    dopts = [list(_at(data_lens, depth)) for _ in rlevel.data]
    for gc in itertools.product(*gopts):
        for dc in itertools.product(*dopts):
            yield {"g": {g.name: gc[i] for i, g in enumerate(rlevel.groups)},
                   "d": {d.name: dc[i] for i, d in enumerate(rlevel.data)}}


def count_size_vectors(rlevel, group_sizes, data_lens, depth=0):
    total = 1
    for g in rlevel.groups:
        inner = count_size_vectors(g.level, group_sizes, data_lens, depth + 1)
        total *= sum(inner ** n for n in _at(group_sizes, depth))
    total *= len(_at(data_lens, depth)) ** len(rlevel.data)
    return total


def fill(rlevel, shape, bg):
    inst = {"f": {}, "g": {}, "d": {}}
    for f in rlevel.fields:
        if f.node.kind != "const":
            inst["f"][f.name] = node_value(f.node, bg)
    for g in rlevel.groups:
        inst["g"][g.name] = [fill(g.level, s, bg) for s in shape["g"][g.name]]
    for d in rlevel.data:
        inst["d"][d.name] = bg.take(shape["d"][d.name])
    return inst


def instances(rmsg, group_sizes=(0, 1, 2), data_lens=(0, 1, 3), seeds=(0x10, 0x81), limit=None):
    n = 0
    for shape in size_vectors(rmsg.level, group_sizes, data_lens):
        for seed in seeds:
            yield shape, seed, fill(rmsg.level, shape, ByteGen(seed))
        n += 1
        if limit and n >= limit:
            return


def shape_str(shape):
    parts = []
    for g, es in shape["g"].items():
        parts.append("%s[%s]" % (g, ",".join(shape_str(e) for e in es)))
    for d, n in shape["d"].items():
        parts.append("%s=%d" % (d, n))
    return " ".join(parts)


def fill_boundary(rlevel, shape, j, bg):
    """like fill(), but every scalar leaf takes the j-th (cyclic) boundary bit pattern of its primitive"""
    from . import kinds

    def nv(node):
        if node.kind == "scalar":
            b = kinds.node_bits(node)
            return b[j % len(b)]
        if node.kind == "array":
            return bg.take(node.size)
        return {m.name: nv(m.node) for m in node.members if m.node.kind != "const"}

    inst = {"f": {}, "g": {}, "d": {}}
    for f in rlevel.fields:
        if f.node.kind != "const":
            inst["f"][f.name] = nv(f.node)
    for g in rlevel.groups:
        inst["g"][g.name] = [fill_boundary(g.level, s, j + 1 + i, bg) for i, s in enumerate(shape["g"][g.name])]
    for d in rlevel.data:
        inst["d"][d.name] = bg.take(shape["d"][d.name])
    return inst
