"""Encoding *kinds* at fixed simple layout (DESIGN.md 2.3 `kinds`): every primitive as built-in required/optional and as
schema type with/without explicit min/max/null; arrays; enums over every integral primitive (direct or through a
<type>); sets of all widths; constants in every form; composites with inline types, refs, nested composites, custom
offsets; groups and data carrying the same kinds."""
import struct

from ..model.ir import (PRIMS, Comp, Data, Enum, Field, Group, Msg, Ref, Schema, SetT, T, std_group_dim, std_header,
                        std_var_data)

INTS = ["char", "int8", "uint8", "int16", "uint16", "int32", "uint32", "int64", "uint64"]
ALL = INTS + ["float", "double"]

EXPLICIT = {
    "char": ("48", "57", "63"), "int8": ("-100", "100", "-7"), "uint8": ("1", "200", "0"),
    "int16": ("-30000", "30000", "5"), "uint16": ("2", "60000", "1"),
    "int32": ("-2000000000", "2000000000", "-9"), "uint32": ("3", "4000000000", "7"),
    "int64": ("-9000000000000000000", "9000000000000000000", "11"), "uint64": ("4", "18000000000000000000", "13"),
    "float": ("-1.5", "2.5", "-3.5"), "double": ("-1.25", "2.25", "-3.25"),
}


def enum_values(p):
    """three valid values: small, mid, top of the encoding range"""
    if p == "char":
        return [("A", "A"), ("B", "B"), ("Z", "z")]
    size, _, signed, _, _ = PRIMS[p]
    top = (1 << (8 * size - (1 if signed else 0))) - 2
    vals = [("A", 1), ("B", 2), ("Z", top)]
    if signed:
        vals.append(("N", -3))
    return vals


def kinds_schema(byte_order="littleEndian", package=None, presmix=True):
    ts = [std_header(), std_group_dim(), std_var_data(), std_var_data("varStrEncoding", "uint16", "char")]
    for p in ALL:
        mn, mx, nl = EXPLICIT[p]
        ts.append(T("T_" + p, p))
        ts.append(T("O_" + p, p, presence="optional"))
        ts.append(T("TX_" + p, p, mn=mn, mx=mx))
        ts.append(T("OX_" + p, p, presence="optional", mn=mn, mx=mx, nl=nl))
    ts += [T("AR_c4", "char", length=4), T("AR_u3", "uint8", length=3), T("AR_i2", "int8", length=2), T("AR_c0", "char", length=0)]
    for p in INTS:
        ts.append(Enum("E_" + p, p, enum_values(p)))
    ts.append(Enum("E_via", "T_uint16", [("One", 1), ("Big", 65000)]))
    for w, p in ((8, "uint8"), (16, "uint16"), (32, "uint32"), (64, "uint64")):
        ts.append(SetT("S_%d" % w, p, [("lo", 0), ("mid", 3), ("hi", w - 1)]))
    ts += [T("K_num", "uint32", presence="constant", const="123"),
           T("K_neg", "int16", presence="constant", const="-5"),
           T("K_char", "char", presence="constant", const="X"),
           T("K_str", "char", presence="constant", const="hello"),
           T("K_str4", "char", presence="constant", length=4, const="hi"),
           T("K_ref", "uint8", presence="constant", value_ref="E_uint8.B"),
           T("K_flt", "float", presence="constant", const="2.5")]
    ts.append(Comp("C_small", [T("a", "uint16"), T("b", "int8")]))
    ts.append(Comp("C_inline", [
        T("a", "uint8"),
        Enum("ie", "uint8", [("X", 7), ("Y", 9)], offset=2),
        SetT("is", "uint16", [("p", 1), ("q", 15)]),
        Comp("ic", [T("x", "int16"), T("y", "float", offset=4)], offset=6),
        Ref("r", "T_uint32"),
        Ref("rc", "C_small", offset=20),
        Ref("re", "E_int16"),
        Ref("rs", "S_32"),
        T("k", "uint8", presence="constant", const="9"),
        Ref("rk", "K_str"),
        T("kv", "uint8", presence="constant", value_ref="E_uint8.A"),
        Ref("rkr", "K_ref"),
        T("arr", "char", length=2),
        T("opt", "double", presence="optional"),
    ]))
    ms = []
    fid = [0]

    def nid():
        fid[0] += 1
        return fid[0]

    ms.append(Msg("prims", 1, [Field("r_" + p, nid(), p) for p in ALL]))
    ms.append(Msg("prims_opt", 2, [Field("o_" + p, nid(), p, presence="optional") for p in ALL]))
    ms.append(Msg("typed", 3, [Field(k + "_" + p, nid(), k + "_" + p) for p in ALL for k in ("T", "O", "TX", "OX")]))
    ms.append(Msg("arrays", 4, [Field("c4", nid(), "AR_c4"), Field("u3", nid(), "AR_u3"), Field("i2", nid(), "AR_i2"),
                                Field("c0", nid(), "AR_c0"), Field("tail", nid(), "uint8")]))
    ms.append(Msg("enums", 5, [Field("e_" + p, nid(), "E_" + p) for p in INTS] + [Field("e_via", nid(), "E_via")]))
    ms.append(Msg("sets", 6, [Field("s%d" % w, nid(), "S_%d" % w) for w in (8, 16, 32, 64)]))
    ms.append(Msg("consts", 7, [Field("k_num", nid(), "K_num"), Field("x", nid(), "uint8"), Field("k_neg", nid(), "K_neg"),
                                Field("k_char", nid(), "K_char"), Field("k_str", nid(), "K_str"), Field("k_str4", nid(), "K_str4"),
                                Field("k_ref", nid(), "K_ref"), Field("k_flt", nid(), "K_flt"),
                                Field("k_enum", nid(), "E_uint8", presence="constant", value_ref="E_uint8.Z"),
                                Field("k_prim", nid(), "uint16", presence="constant", value_ref="E_uint16.B"),
                                Field("y", nid(), "uint16")]))
    ms.append(Msg("comps", 8, [Field("ci", nid(), "C_inline"), Field("cs", nid(), "C_small", offset=40), Field("after", nid(), "uint8")]))
    ms.append(Msg("mixed", 9, [Field("f", nid(), "O_float"), Field("e", nid(), "E_char"), Field("s", nid(), "S_64"), Field("c", nid(), "C_small"),
                               Field("k", nid(), "K_str")],
                  [Group("g", nid(), [Field("e", nid(), "E_int8"), Field("a", nid(), "AR_u3"), Field("ci", nid(), "C_inline"),
                                      Field("o", nid(), "int64", presence="optional")],
                         [Group("h", nid(), [Field("s", nid(), "S_8"), Field("d", nid(), "double")])],
                         [Data("str", nid(), "varStrEncoding")]),
                   Group("flat", nid(), [Field("x", nid(), "TX_int32"), Field("k", nid(), "K_num")])],
                  [Data("blob", nid(), "varDataEncoding"), Data("text", nid(), "varStrEncoding")]))
    # every built-in primitive in a *non-last* position too (the reversed list), in a root block and in a group entry, with an
    # explicit offset on the field that follows the widest ones: the generator keeps a separate running offset per built-in
    # type for the cursor accessors (found necessary by mutants c01d / c02e: a wrong row of that table for int64 / double)
    rev = list(reversed(ALL))
    sizes = {p: PRIMS[p][0] for p in ALL}
    flds, off = [], 0
    for i, p in enumerate(rev):
        o = None
        if i in (1, 4):            # the field after `double` and the one after `int64`: explicit offset with a 3-byte gap
            off += 3
            o = off
        flds.append(Field("v_" + p, nid(), p, offset=o))
        off += sizes[p]
    ms.append(Msg("prims_rev", 10, flds))
    ms.append(Msg("prims_rev_g", 11, [Field("r", nid(), "uint8")],
                  [Group("g", nid(), [Field("w_" + p, nid(), p, presence=("optional" if i % 2 else None)) for i, p in enumerate(rev)])]))
    if presmix:
        # field presence that disagrees with the encoding's: sbeppc resolves it silently (a <type>'s own presence wins, a set is
        # always required, an optional enum is required, composites keep the field's) -- such a field is an ordinary member
        # and every view of it (accessors, cursor, visit, by tag, sizes) has to agree (mutant c19e: dropped by visit only)
        ms.append(Msg("presmix", 12, [Field("p_tc", nid(), "T_uint16", presence="constant"), Field("a1", nid(), "uint8"),
                                      Field("p_oc", nid(), "O_int32", presence="constant"), Field("p_or", nid(), "O_int32", presence="required"),
                                      Field("p_to", nid(), "T_uint16", presence="optional"), Field("a2", nid(), "uint16"),
                                      Field("p_sc", nid(), "S_16", presence="constant"), Field("p_so", nid(), "S_8", presence="optional"),
                                      Field("p_eo", nid(), "E_uint8", presence="optional"), Field("p_co", nid(), "C_small", presence="optional"),
                                      Field("tail", nid(), "uint32")],
                      [Group("g", nid(), [Field("q_sc", nid(), "S_8", presence="constant"), Field("q_tc", nid(), "T_uint16", presence="constant"),
                                          Field("z", nid(), "uint8")])]))
    tag = "le" if byte_order == "littleEndian" else "be"
    return Schema(package or ("kinds_" + tag), ts, ms, id=9, version=4, byte_order=byte_order, desc="kinds", sem_version="1.0")


# ---------------------------------------------------------------- boundary values (bit patterns)

def _f32(x):
    return int.from_bytes(struct.pack("<f", x), "little")


def _f64(x):
    return int.from_bytes(struct.pack("<d", x), "little")


def boundary_bits(prim):
    size, _, signed, fp, _ = PRIMS[prim]
    if fp:
        if prim == "float":
            return [0x00000000, 0x80000000, _f32(1.0), _f32(-1.5), 0x00000001, 0x00800000, 0x7f7fffff, 0xff7fffff,
                    0x7f800000, 0xff800000, 0x7fc00000, 0x7fc12345, 0xffc00001, 0x7f800001, 0x12345678]
        return [0x0, 0x8000000000000000, _f64(1.0), _f64(-1.5), 0x1, 0x0010000000000000, 0x7fefffffffffffff,
                0xffefffffffffffff, 0x7ff0000000000000, 0xfff0000000000000, 0x7ff8000000000000, 0x7ff8000000012345,
                0xfff8000000000001, 0x7ff0000000000001, 0x0123456789abcdef]
    bits = 8 * size
    full = (1 << bits) - 1
    vals = [0, 1, full, full - 1, 1 << (bits - 1), (1 << (bits - 1)) - 1, (1 << (bits - 1)) + 1]
    pat = int.from_bytes(bytes(range(0x11, 0x11 + size)), "big")
    vals.append(pat)
    vals.append(full ^ pat)
    if prim == "char":
        vals += [0x20, 0x7e, 0x41]
    out = []
    for v in vals:
        v &= full
        if v not in out:
            out.append(v)
    return out


def node_bits(node):
    """boundary bit patterns for a scalar leaf; enum leaves get every valid value first, then invalid ones"""
    b = boundary_bits(node.prim)
    if getattr(node, "rep", None) == "enum":
        from ..model.layout import Resolver
        size = node.size
        valid = []
        for v in node.src.values:
            val = Resolver.parse_value(str(v[1]), node.prim) & ((1 << (8 * size)) - 1)
            if val not in valid:
                valid.append(val)
        return valid + [x for x in b if x not in valid]
    return b


def decorate(schema):
    """attribute-rich variant: every entity gets description, sinceVersion, (some) deprecated, semanticType,
    characterEncoding where the XML dialect has the attribute.  presence='optional' on enum/set fields and an `offset`
    on public types stay out of the alphabet (their expected trait value is not fixed by the XML or by SBE)."""
    from ..model import ir
    k = [0]

    def nxt():
        k[0] += 1
        return k[0]

    def deco(o, sem=False):
        n = nxt()
        o.desc = "D%d %s" % (n, getattr(o, "name", ""))
        o.since = n % 4
        if n % 3 == 0:
            o.deprecated = (0, 4, 1)[(n // 3) % 3]      # 0 is a stated value, not "absent"
        if sem and hasattr(o, "sem"):
            o.sem = "Sem%d" % n

    def deco_type(t):
        if isinstance(t, ir.Ref):
            n = nxt()
            t.since = n % 4
            if n % 2 == 0:
                t.deprecated = (0, 3)[(n // 2) % 2]     # a ref states its own value, whatever the referenced type says
            return
        deco(t, sem=True)
        if isinstance(t, ir.T) and t.prim == "char":
            t.char_enc = "ISO_8859_1"
        if isinstance(t, ir.Enum):
            t.values = [(v[0], v[1], dict({"description": "V%d" % nxt(), "sinceVersion": k[0] % 4}, **({"deprecated": (0, 5)[k[0] % 2]} if k[0] % 3 else {})))
                        for v in t.values]
        if isinstance(t, ir.SetT):
            t.choices = [(c[0], c[1], {"description": "C%d" % nxt(), "sinceVersion": k[0] % 4, "deprecated": (4, 0)[k[0] % 2]}) for c in t.choices]
        if isinstance(t, ir.Comp):
            for m in t.members:
                deco_type(m)

    def deco_level(lv):
        for f in lv.fields:
            deco(f)
        for g in lv.groups:
            deco(g, sem=True)
            deco_level(g)
        for d in lv.data:
            deco(d)

    for t in schema.types:
        if t.name in ("messageHeader", "groupSizeEncoding"):
            continue
        deco_type(t)
    for m in schema.msgs:
        deco(m, sem=True)
        deco_level(m)
    schema.desc = "rich \u00e9 schema"
    schema.sem_version = "5.2-rc"
    return schema
