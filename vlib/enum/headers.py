"""`headers` enumerator (DESIGN.md 2.3): messageHeader / groupSizeEncoding layouts.

messageHeader: every permutation of the four required members; optional numGroups / numVarDataFields (each subset,
appended or prepended); an extra member at every position; a gap before every member; each member (and all) as <ref>
to a public type; each member's type over uint8..uint64.  One schema per layout (a schema has one header).
Group dimensions: both orders x optional counters x extra member x gap x ref x all 16 type pairs, as groups (flat and
nested) of one schema."""
import itertools

from ..model.ir import Comp, Data, Field, Group, Msg, Ref, Schema, T, std_group_dim, std_var_data

REQ = ["blockLength", "templateId", "schemaId", "version"]
UT = ["uint8", "uint16", "uint32", "uint64"]


def _messages(gdim=None, ndim=None):
    """levels whose group count and data count always differ, so that numGroups / numVarDataFields cannot be confused"""
    g1 = Group("g", 10, [Field("x", 11, "uint16"), Field("y", 12, "uint8")], dim=gdim)                       # 0 groups, 0 data
    gd = Group("gd", 15, [Field("x", 16, "uint8")], [], [Data("d1", 17, "varDataEncoding")], dim=gdim)        # 0 groups, 1 data
    n1 = Group("n", 20, [Field("x", 21, "uint32")], [Group("h", 22, [Field("z", 23, "uint8")], dim=gdim)],
               [Data("nd", 24, "varDataEncoding"), Data("nd2", 25, "varDataEncoding")], dim=ndim or gdim)     # 1 group, 2 data
    n2 = Group("n2", 26, [], [Group("h", 27, [Field("z", 28, "uint8")], dim=gdim), Group("h2", 29, [], dim=gdim)], [], dim=ndim or gdim)  # 2 groups, 0 data
    return [Msg("m0", 1, [Field("f", 1, "uint32")]),
            Msg("m1", 2, [Field("f", 1, "uint16")], [g1.clone()], [Data("d", 30, "varDataEncoding"), Data("d2", 32, "varDataEncoding")], block_length=4),  # 1 / 2
            Msg("m2", 3, [Field("f", 1, "uint8")], [gd.clone(), n1.clone(), n2.clone()], [Data("d", 30, "varDataEncoding")])]                            # 3 / 1


def header_layouts():
    """yield (desc, [member IR list], extra public types)"""
    def mem(name, prim="uint16", offset=None):
        return T(name, prim, offset=offset)

    # 1. all permutations
    for perm in itertools.permutations(REQ):
        yield "perm:" + ",".join(p[0] for p in perm), [mem(n) for n in perm], []
    # 2. optional counters
    for sub in (["numGroups"], ["numVarDataFields"], ["numGroups", "numVarDataFields"], ["numVarDataFields", "numGroups"]):
        yield "counters-after:" + "+".join(sub), [mem(n) for n in REQ] + [mem(n, "uint8") for n in sub], []
        yield "counters-before:" + "+".join(sub), [mem(n, "uint16") for n in sub] + [mem(n) for n in REQ], []
    # 3. extra member at every position
    for pos in range(5):
        ms = [mem(n) for n in REQ]
        ms.insert(pos, mem("extra", "uint32"))
        yield "extra@%d" % pos, ms, []
    # 4. gap before every member
    for pos in range(4):
        ms = []
        off = 0
        for i, n in enumerate(REQ):
            if i == pos:
                off += 3
                ms.append(mem(n, offset=off))
            else:
                ms.append(mem(n))
            off += 2
        yield "gap-before:%s" % REQ[pos], ms, []
    # 5. ref-typed members
    pub = [T("H_" + n, "uint16") for n in REQ]
    for pos in range(4):
        ms = [Ref(n, "H_" + n) if i == pos else mem(n) for i, n in enumerate(REQ)]
        yield "ref:%s" % REQ[pos], ms, pub
    yield "ref:all", [Ref(n, "H_" + n) for n in REQ], pub
    # 5b. ref-typed optional counters (each alone, both, and every member a ref)
    cpub = pub + [T("H_numGroups", "uint8"), T("H_numVarDataFields", "uint16")]
    for sub in (["numGroups"], ["numVarDataFields"], ["numGroups", "numVarDataFields"]):
        yield "ref-counters:" + "+".join(sub), [mem(n) for n in REQ] + [Ref(n, "H_" + n) for n in sub], cpub
    yield "ref:all+counters", [Ref(n, "H_" + n) for n in REQ + ["numVarDataFields", "numGroups"]], cpub
    # 6. member types
    for pos in range(4):
        for t in UT:
            if t == "uint16":
                continue
            yield "type:%s=%s" % (REQ[pos], t), [mem(n, t if i == pos else "uint16") for i, n in enumerate(REQ)], []
    yield "type:all=uint64+counters", [mem(n, "uint64") for n in REQ] + [mem("numGroups", "uint64"), mem("numVarDataFields", "uint32")], []
    # 6b. signed member types (sbeppc accepts any integer type for message header members; the fillers brace-initialise them)
    for pos in range(4):
        for t in ("int16", "int64"):
            yield "type:%s=%s" % (REQ[pos], t), [mem(n, t if i == pos else "uint16") for i, n in enumerate(REQ)], []
    yield "type:all=int32+counters", [mem(n, "int32") for n in REQ] + [mem("numGroups", "int8"), mem("numVarDataFields", "int16")], []


def header_schemas(byte_order="littleEndian"):
    tag = "le" if byte_order == "littleEndian" else "be"
    out = []
    for i, (desc, members, pub) in enumerate(header_layouts()):
        types = list(pub) + [Comp("messageHeader", members), std_group_dim(), std_var_data()]
        s = Schema("hdr_%s_%d" % (tag, i), types, _messages(), id=0x1234 % 250, version=7, byte_order=byte_order)
        out.append((s, ["H:%s:%s" % (desc, m.name) for m in s.msgs]))
    return out


def dim_layouts():
    def mem(name, prim, offset=None):
        return T(name, prim, offset=offset)

    for bt, nt in itertools.product(UT, UT):
        yield "types:bl=%s,num=%s" % (bt, nt), [mem("blockLength", bt), mem("numInGroup", nt)], []
    yield "order:num-first", [mem("numInGroup", "uint16"), mem("blockLength", "uint16")], []
    for sub in (["numGroups"], ["numVarDataFields"], ["numGroups", "numVarDataFields"]):
        yield "counters:" + "+".join(sub), [mem("blockLength", "uint16"), mem("numInGroup", "uint8")] + [mem(n, "uint16") for n in sub], []
        yield "counters-first:" + "+".join(sub), [mem(n, "uint8") for n in sub] + [mem("numInGroup", "uint32"), mem("blockLength", "uint8")], []
    for pos in range(3):
        ms = [mem("blockLength", "uint16"), mem("numInGroup", "uint16")]
        ms.insert(pos, mem("extra", "uint8"))
        yield "extra@%d" % pos, ms, []
    yield "gap-before:blockLength", [mem("blockLength", "uint16", offset=2), mem("numInGroup", "uint16")], []
    yield "gap-before:numInGroup", [mem("blockLength", "uint16"), mem("numInGroup", "uint16", offset=5)], []
    pub = [T("D_blockLength", "uint16"), T("D_numInGroup", "uint32")]
    yield "ref:blockLength", [Ref("blockLength", "D_blockLength"), mem("numInGroup", "uint16")], pub
    yield "ref:all", [Ref("blockLength", "D_blockLength"), Ref("numInGroup", "D_numInGroup")], pub
    cpub = pub + [T("D_numGroups", "uint16"), T("D_numVarDataFields", "uint8")]
    for sub in (["numGroups"], ["numVarDataFields"], ["numGroups", "numVarDataFields"]):
        yield "ref-counters:" + "+".join(sub), [mem("blockLength", "uint16"), mem("numInGroup", "uint16")] + [Ref(n, "D_" + n) for n in sub], cpub
    yield "ref:all+counters", [Ref(n, "D_" + n) for n in ("numGroups", "blockLength", "numVarDataFields", "numInGroup")], cpub


def dim_schemas(byte_order="littleEndian", with_ref_num=True):
    tag = "le" if byte_order == "littleEndian" else "be"
    types = [Comp("messageHeader", [T(n, "uint16") for n in REQ]), std_group_dim(), std_var_data()]
    msgs, descs = [], []
    seen_pub = set()
    k = 0
    for desc, members, pub in dim_layouts():
        if not with_ref_num and desc in ("ref:all", "ref:all+counters"):
            continue
        for p in pub:
            if p.name not in seen_pub:
                seen_pub.add(p.name)
                types.append(p)
        dn = "dim%d" % k
        types.append(Comp(dn, members))
        ms = _messages(gdim=dn)
        for m in ms[1:]:
            m.name = "%s_d%d" % (m.name, k)
            m.id = 10 + len(msgs)
            msgs.append(m)
            descs.append("D:%s:%s" % (desc, m.name))
        k += 1
    return [(Schema("dims_%s" % tag, types, msgs, id=5, version=2, byte_order=byte_order), descs)]
