"""Message *layout* shapes (DESIGN.md 2.3 `shapes`): a finite grammar walked completely, simplest first.

Family A -- level layouts: every field list (length 0..K) over the size alphabet, every custom-offset vector,
            every blockLength mode; each layout placed as (1) a root block without groups, (2) a root block followed by
            a flat group and data, (3) the entry of a flat group, (4) the entry of a nested group.
Family B -- level structures: 0..2 groups per level of kind flat / with data / with nested group / empty entry /
            constant-only entry, depth <= 3 levels, 0..2 data members, dimension and length types cycling through all
            16 + 4 variants.
Messages are packed ~PACK per schema so one sbeppc run and one header tree serve many shapes.
"""
import itertools

from ..model.ir import (Comp, Data, Enum, Field, Group, Msg, Schema, SetT, T, std_header)

UINTS = [("u8", "uint8"), ("u16", "uint16"), ("u32", "uint32"), ("u64", "uint64")]

# field alphabet: key -> (type name, size, is_const)
ALPHA = {
    "u8": ("uint8", 1, False),
    "u16": ("uint16", 2, False),
    "u64": ("uint64", 8, False),
    "a3": ("A3", 3, False),
    "a0": ("A0", 0, False),
    "cmp": ("CMP", 4, False),
    "cst": ("CST", 0, True),
    # kinds the generator special-cases (family AL puts each of them last / first / alone on a level)
    "en": ("EN", 1, False),
    "st": ("ST", 2, False),
    "nt": ("NT", 4, False),
    "u32o": ("uint32", 4, False, "optional"),
}
ALPHA_QUICK = ["u8", "u16", "a3", "cmp", "cst", "u64", "a0"]


def common_types():
    ts = [std_header()]
    for nn, nt in UINTS:
        for bn, bt in UINTS:
            ts.append(Comp("gse_%s_%s" % (nn, bn), [T("blockLength", bt), T("numInGroup", nt)]))
    for ln, lt in UINTS:
        ts.append(Comp("vd_%s" % ln, [T("length", lt), T("varData", "uint8", length=0)]))
        ts.append(Comp("vs_%s" % ln, [T("length", lt), T("varData", "char", length=0)]))
    ts += [T("A3", "char", length=3), T("A0", "char", length=0),
           Comp("CMP", [T("a", "uint8"), T("b", "uint16", offset=2)]),
           T("CST", "uint8", presence="constant", const="7"),
           Enum("EN", "uint8", [("A", 1), ("B", 2), ("C", 200)]),
           SetT("ST", "uint16", [("c0", 0), ("c3", 3), ("c15", 15)]),
           T("NT", "int32", presence="optional", nl="-7")]
    return ts


class Cycler:
    """deterministic round-robin over the 16 dimension pairs and the 8 data encodings, so every schema carries all"""

    def __init__(self):
        self.g = 0
        self.d = 0

    def dim(self):
        nn, bn = UINTS[self.g % 4][0], UINTS[(self.g // 4) % 4][0]
        self.g += 1
        return "gse_%s_%s" % (nn, bn)

    def dim_no_u8_bl(self):
        # blockLength must hold 130: skip nothing (uint8 holds 255), but make sure uint8 numInGroup is among the choices
        nn, bn = UINTS[self.g % 4][0], UINTS[(self.g // 4) % 4][0]
        self.g += 1
        return "gse_%s_%s" % (nn, bn)

    def data(self):
        k = self.d
        self.d += 1
        return ("vd_%s" if (k // 4) % 2 == 0 else "vs_%s") % UINTS[k % 4][0]


class Ids:
    def __init__(self):
        self.n = 0

    def next(self):
        self.n += 1
        return self.n


def level_layouts(max_fields, alphabet, gaps, bl_modes):
    """yield (fields spec list, bl_mode) with fields spec = [(key, gap)]"""
    for k in range(0, max_fields + 1):
        for keys in itertools.product(alphabet, repeat=k):
            gap_opts = [([None] if ALPHA[key][2] else gaps) for key in keys]
            for gv in itertools.product(*gap_opts):
                for bl in bl_modes:
                    yield list(zip(keys, gv)), bl


def build_fields(spec, ids, prefix="f"):
    """spec -> (Field list, min block length)"""
    fields = []
    off = 0
    for i, (key, gap) in enumerate(spec):
        tname, size, is_const = ALPHA[key][:3]
        pres = ALPHA[key][3] if len(ALPHA[key]) > 3 else None
        if is_const:
            fields.append(Field("%s%d" % (prefix, i), ids.next(), tname))
            continue
        o = None
        if gap is not None:
            o = off + gap
            off = o
        fields.append(Field("%s%d" % (prefix, i), ids.next(), tname, offset=o, presence=pres))
        off += size
    return fields, off


def bl_value(mode, min_bl):
    return {"implicit": None, "exact": min_bl, "plus5": min_bl + 5}[mode]


def family_a(tier):
    if tier == "quick":
        plans = [(2, ALPHA_QUICK[:5], [None, 3], ["implicit", "plus5"], ("root", "root+flat+data", "flat-entry", "nested-entry"))]
    else:
        # thorough: the full alphabet / gap / blockLength product up to two fields in all four placements, and three-field
        # lists over the five most structure-relevant kinds in the two placements that differ most
        plans = [(2, ALPHA_QUICK, [None, 0, 3], ["implicit", "exact", "plus5"], ("root", "root+flat+data", "flat-entry", "nested-entry")),
                 (3, ALPHA_QUICK[:5], [None, 3], ["implicit", "plus5"], ("root+flat+data", "nested-entry"))]
    cyc = Cycler()
    k = 0
    for pi, (max_fields, alphabet, gaps, bls, placements) in enumerate(plans):
      for spec, blm in level_layouts(max_fields, alphabet, gaps, bls):
        if pi == 1 and len(spec) < 3:
            continue
        for placement in placements:
            if tier == "quick" and placement == "root+flat+data" and len(spec) == 2:
                continue    # quick: the two-field layouts are placed as root, flat entry and nested entry only
            ids = Ids()
            name = "a%d" % k
            k += 1
            desc = "A:%s:%s:%s" % (placement, ",".join("%s%s" % (key, "" if g is None else "+%d" % g) for key, g in spec), blm)
            if placement == "root":
                fields, mn = build_fields(spec, ids)
                yield desc, Msg(name, k, fields, block_length=bl_value(blm, mn))
            elif placement == "root+flat+data":
                fields, mn = build_fields(spec, ids)
                g = Group("g", ids.next(), [Field("x", ids.next(), "uint16")], dim=cyc.dim())
                yield desc, Msg(name, k, fields, [g], [Data("d", ids.next(), cyc.data())], block_length=bl_value(blm, mn))
            elif placement == "flat-entry":
                fields, mn = build_fields(spec, ids)
                g = Group("g", ids.next(), fields, dim=cyc.dim(), block_length=bl_value(blm, mn))
                yield desc, Msg(name, k, [Field("r", ids.next(), "uint8")], [g])
            else:
                fields, mn = build_fields(spec, ids)
                h = Group("h", ids.next(), [Field("y", ids.next(), "uint8")], dim=cyc.dim())
                g = Group("g", ids.next(), fields, [h], [Data("gd", ids.next(), cyc.data())], dim=cyc.dim(),
                          block_length=bl_value(blm, mn))
                yield desc, Msg(name, k, [Field("r", ids.next(), "uint8")], [g], [Data("d", ids.next(), cyc.data())])


def _place(placement, spec, blm, name, k, cyc):
    ids = Ids()
    fields, mn = build_fields(spec, ids)
    if placement == "root":
        return Msg(name, k, fields, block_length=bl_value(blm, mn))
    if placement == "root+flat+data":
        g = Group("g", ids.next(), [Field("x", ids.next(), "uint16")], dim=cyc.dim())
        return Msg(name, k, fields, [g], [Data("d", ids.next(), cyc.data())], block_length=bl_value(blm, mn))
    if placement == "flat-entry":
        g = Group("g", ids.next(), fields, dim=cyc.dim(), block_length=bl_value(blm, mn))
        return Msg(name, k, [Field("r", ids.next(), "uint8")], [g])
    h = Group("h", ids.next(), [Field("y", ids.next(), "uint8")], dim=cyc.dim())
    g = Group("g", ids.next(), fields, [h], [Data("gd", ids.next(), cyc.data())], dim=cyc.dim(), block_length=bl_value(blm, mn))
    return Msg(name, k, [Field("r", ids.next(), "uint8")], [g], [Data("d", ids.next(), cyc.data())])


def family_al(tier):
    """every representation kind the generator special-cases as the only / the last / a non-last field of a level, in all
    four placements: the last non-constant field of a level has its own cursor accessors per kind"""
    cyc = Cycler()
    kinds_ = ["u64", "a0", "en", "st", "nt", "u32o"] if tier == "quick" else list(ALPHA)
    gaps = [None] if tier == "quick" else [None, 3]
    bls = ["implicit", "plus5"] if tier == "quick" else ["implicit", "exact", "plus5"]
    k = 0
    for kd in kinds_:
        for spec0 in ([kd], ["u8", kd], [kd, "u8"]):
            for gap in gaps:
                spec = [(key, None if ALPHA[key][2] else gap) for key in spec0]
                for blm in bls:
                    for placement in ("root", "root+flat+data", "flat-entry", "nested-entry"):
                        name = "l%d" % k
                        k += 1
                        desc = "AL:%s:%s:%s" % (placement, ",".join("%s%s" % (key, "" if g is None else "+%d" % g) for key, g in spec), blm)
                        yield desc, _place(placement, spec, blm, name, k, cyc)


def _family_a_old(tier):
    max_fields, alphabet, gaps, bls = 2, ALPHA_QUICK[:5], [None, 3], ["implicit", "plus5"]
    cyc = Cycler()
    k = 0
    for spec, blm in level_layouts(max_fields, alphabet, gaps, bls):
        for placement in ("root", "root+flat+data", "flat-entry", "nested-entry"):
            if tier == "quick" and placement == "root+flat+data" and len(spec) == 2:
                continue    # quick: the two-field layouts are placed as root, flat entry and nested entry only
            ids = Ids()
            name = "a%d" % k
            k += 1
            desc = "A:%s:%s:%s" % (placement, ",".join("%s%s" % (key, "" if g is None else "+%d" % g) for key, g in spec), blm)
            if placement == "root":
                fields, mn = build_fields(spec, ids)
                yield desc, Msg(name, k, fields, block_length=bl_value(blm, mn))
            elif placement == "root+flat+data":
                fields, mn = build_fields(spec, ids)
                g = Group("g", ids.next(), [Field("x", ids.next(), "uint16")], dim=cyc.dim())
                yield desc, Msg(name, k, fields, [g], [Data("d", ids.next(), cyc.data())], block_length=bl_value(blm, mn))
            elif placement == "flat-entry":
                fields, mn = build_fields(spec, ids)
                g = Group("g", ids.next(), fields, dim=cyc.dim(), block_length=bl_value(blm, mn))
                yield desc, Msg(name, k, [Field("r", ids.next(), "uint8")], [g])
            else:
                fields, mn = build_fields(spec, ids)
                h = Group("h", ids.next(), [Field("y", ids.next(), "uint8")], dim=cyc.dim())
                g = Group("g", ids.next(), fields, [h], [Data("gd", ids.next(), cyc.data())], dim=cyc.dim(),
                          block_length=bl_value(blm, mn))
                yield desc, Msg(name, k, [Field("r", ids.next(), "uint8")], [g], [Data("d", ids.next(), cyc.data())])


GROUP_KINDS = ["flat", "data", "nested", "empty", "constonly", "bigbl"]


def make_group(kind, name, ids, cyc, depth, tier):
    if kind == "flat":
        return [Group(name, ids.next(), [Field("x", ids.next(), "uint8"), Field("w", ids.next(), "uint16")], dim=cyc.dim())]
    if kind == "data":
        return [Group(name, ids.next(), [Field("x", ids.next(), "uint8")], [], [Data("gd", ids.next(), cyc.data())], dim=cyc.dim())]
    if kind == "empty":
        return [Group(name, ids.next(), [], dim=cyc.dim())]
    if kind == "bigbl":
        # explicit blockLength 130: two entries exceed 255 bytes, the range of a uint8 numInGroup/blockLength product
        return [Group(name, ids.next(), [Field("x", ids.next(), "uint8"), Field("k", ids.next(), "CST")], dim=cyc.dim_no_u8_bl(),
                      block_length=130)]
    if kind == "constonly":
        return [Group(name, ids.next(), [Field("k", ids.next(), "CST")], dim=cyc.dim())]
    # nested: every kind of inner group (depth permitting)
    out = []
    inner_kinds = GROUP_KINDS if depth < 2 else ["flat", "data", "empty", "constonly", "bigbl"]
    if tier == "quick":
        inner_kinds = [k for k in inner_kinds if k != "nested"] if depth >= 1 else inner_kinds
    for ik in inner_kinds:
        for inner in make_group(ik, name + "i", ids, cyc, depth + 1, tier):
            out.append(Group(name, ids.next(), [Field("x", ids.next(), "uint16")], [inner], dim=cyc.dim()))
    return out


def family_b(tier):
    cyc = Cycler()
    k = 0
    ngroups = (0, 1, 2)
    ndata = (0, 1, 2)
    for ng in ngroups:
        kind_lists = itertools.product(GROUP_KINDS, repeat=ng)
        for kinds in kind_lists:
            # expand each group kind into its variants (nested has several)
            ids = Ids()
            variants = [make_group(kd, "g%d" % i, ids, cyc, 0, tier) for i, kd in enumerate(kinds)]
            for combo in itertools.product(*variants):
                if tier == "quick" and ng == 2 and sum(1 for c in combo if c.groups) == 2:
                    continue    # quick: at most one nested group among two siblings
                for nd in ndata:
                    for root_fields in ((), ("u16",)):
                        if tier == "quick" and ng == 2 and (nd == 2 or not root_fields):
                            continue
                        name = "b%d" % k
                        k += 1
                        fields = [Field("r%d" % i, 1000 + i, ALPHA[key][0]) for i, key in enumerate(root_fields)]
                        data = [Data("d%d" % i, 2000 + i, cyc.data()) for i in range(nd)]
                        desc = "B:%s:data%d:root%d" % ("+".join(_gdesc(c) for c in combo) or "nogroups", nd, len(root_fields))
                        import copy
                        yield desc, Msg(name, k, fields, [copy.deepcopy(c) for c in combo], data)


def family_b3(tier):
    """three and four sibling groups on one level (root and inside an entry): the accessor of group k is derived from
    group k-1, so two siblings are not enough to see a wrong predecessor"""
    cyc = Cycler()
    k = 0
    combos = [("flat", "flat", "flat"), ("flat", "data", "flat"), ("data", "flat", "empty"), ("bigbl", "flat", "data"),
              ("flat", "flat", "flat", "flat"), ("data", "data", "data")]
    if tier != "quick":
        combos += [c for c in itertools.product(("flat", "data", "empty"), repeat=3) if c not in combos]
    for kinds in combos:
        for where in ("root", "entry"):
            for nd in (0, 2, 3, 4) if kinds in combos[:2] else (0, 2):     # also three and four <data> members on one level
                ids = Ids()
                groups = [make_group(kd, "s%d" % i, ids, cyc, 1, tier)[0] for i, kd in enumerate(kinds)]
                data = [Data("d%d" % i, 2000 + i, cyc.data()) for i in range(nd)]
                name = "t%d" % k
                k += 1
                desc = "B3:%s:%s:data%d" % (where, "+".join(kinds), nd)
                if where == "root":
                    yield desc, Msg(name, k, [Field("r", 1000, "uint16")], groups, data)
                else:
                    outer = Group("o", ids.next(), [Field("x", ids.next(), "uint8")], groups, data, dim=cyc.dim())
                    yield desc, Msg(name, k, [Field("r", 1000, "uint16")], [outer], [Data("md", 3000, cyc.data())])


def family_deep(tier):
    """four and five levels (root -> g -> h -> i [-> j]): the emitters recurse per level, trait parameter names are the
    joined path, and the cursor of an entry is handed down level by level"""
    cyc = Cycler()
    variants = [("chain4", 3, False, False), ("chain4+data", 3, True, False), ("chain4+siblings", 3, True, True)]
    if tier != "quick":
        variants += [("chain5", 4, False, False), ("chain5+data", 4, True, True)]
    for k, (name, depth, with_data, siblings) in enumerate(variants):
        ids = Ids()

        def build(level):
            fields = [Field("x%d" % level, ids.next(), "uint8" if level % 2 else "uint16")]
            groups = []
            if level < depth:
                groups.append(build(level + 1))
                if siblings and level == depth - 1:
                    groups.append(Group("s%d" % level, ids.next(), [Field("y", ids.next(), "uint8")], dim=cyc.dim()))
            data = [Data("d%d" % level, ids.next(), cyc.data())] if with_data else []
            if level == 2 and not with_data:
                fields = []                 # a member-less level in the middle of the chain
            return Group("g%d" % level, ids.next(), fields, groups, data, dim=cyc.dim())

        top = build(1)
        yield "DEEP:%s" % name, Msg("dp%d" % k, k + 1, [Field("r", 1000, "uint16")], [top], [Data("md", 3000, cyc.data())] if with_data else [])


def _gdesc(g):
    s = "const" if any(f.type == "CST" for f in g.fields) and len(g.fields) == 1 else ("f%d" % len(g.fields))
    if g.data:
        s += "d"
    if g.groups:
        s += "(" + "+".join(_gdesc(h) for h in g.groups) + ")"
    return s


def catalogue(tier, byte_order="littleEndian", pack=40, families=("A", "B")):
    """-> list of (Schema, [desc per message])"""
    msgs = []
    if "A" in families:
        msgs += list(family_a(tier))
        msgs += list(family_al(tier))
    if "B" in families:
        msgs += list(family_b(tier))
        msgs += list(family_b3(tier))
        msgs += list(family_deep(tier))
    schemas = []
    tag = "le" if byte_order == "littleEndian" else "be"
    for i in range(0, len(msgs), pack):
        chunk = msgs[i:i + pack]
        ms = []
        for j, (desc, m) in enumerate(chunk):
            m.id = j + 1
            ms.append(m)
        s = Schema("cat_%s_%s_%d" % (tier[0], tag, i // pack), common_types(), ms, id=3, version=1, byte_order=byte_order)
        schemas.append((s, [d for d, _ in chunk]))
    return schemas
