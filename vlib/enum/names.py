"""`names` enumerator (DESIGN.md 2.3): assignments of a fixed identifier pool to the name slots of a template schema --
every pair (thorough: also triple) of slots sharing a pool name, all other slots fresh -- and the *concatenated-name*
family: group trees whose paths join to the same string at the same / different depths."""
import itertools

from ..model.ir import Comp, Data, Enum, Field, Group, Msg, Ref, Schema, SetT, T, std_group_dim, std_header, std_var_data

SLOTS = ["comp", "comp_m1", "comp_m2", "inner", "inner_m", "enum", "enum_val", "set", "set_choice", "type", "msg", "field", "field2", "group", "nested",
         "group_field", "nested_field", "data", "msg2"]
FRESH = {s: "fresh_%s" % s for s in SLOTS}


def template(names, package):
    n = dict(FRESH)
    n.update(names)
    types = [std_header(), std_group_dim(), std_var_data(),
             T(n["type"], "uint16"),
             Enum(n["enum"], "uint8", [(n["enum_val"], 1), ("other_val", 2)]),
             SetT(n["set"], "uint8", [(n["set_choice"], 0), ("other_choice", 3)]),
             Comp(n["comp"], [T(n["comp_m1"], "uint8"), T(n["comp_m2"], "uint16"), Comp(n["inner"], [T(n["inner_m"], "uint8")]),
                              Enum("ie", "uint8", [(n["enum_val"], 5)])])]
    msgs = [Msg(n["msg"], 1, [Field(n["field"], 1, n["comp"]), Field(n["field2"], 2, n["enum"]), Field("fs", 3, n["set"]), Field("ft", 4, n["type"])],
                [Group(n["group"], 10, [Field(n["group_field"], 11, "uint8")],
                       [Group(n["nested"], 12, [Field(n["nested_field"], 13, "uint16")])],
                       [Data("gd", 14, "varDataEncoding")])],
                [Data(n["data"], 20, "varDataEncoding")]),
            Msg(n["msg2"], 2, [Field(n["field"], 1, "uint8")])]
    return Schema(package, types, msgs, id=3, version=0)


def pool(package):
    return ["x", "y", "x_0", "x_1", "x_entry", "x_0_entry", "types", "messages", "schema", "detail", package]


# identifiers the emitted code (and the library base classes) use for template parameters, parameters, locals and members
IMPL_NAMES = ["c", "v", "num_in_group", "header", "visitor", "other", "res", "std", "sbepp", "count", "pos",
              "Byte", "Cursor", "T", "Visitor", "Args", "args", "last", "size", "value", "begin", "end",
              "Tag", "View", "Entry", "Dimension", "Byte2", "U", "E", "lhs", "rhs", "first", "It", "R", "detail", "this_"]
IMPL_NAMES_QUICK = IMPL_NAMES[:22]
# slots that live in different scopes and can therefore carry the same name in one schema
SCOPE_SETS = [["comp_m1", "inner_m", "enum_val", "set_choice", "field", "group_field", "nested_field"],
              ["comp_m2", "group", "comp"], ["field2", "nested", "enum"], ["data", "set", "inner"], ["msg", "type"]]


def impl_name_schemas(tier):
    k = 0
    for nm in (IMPL_NAMES if tier != "quick" else IMPL_NAMES_QUICK):
        for slots in SCOPE_SETS:
            k += 1
            yield "impl-name:%s@%s" % (nm, "+".join(slots)), template({s: nm for s in slots}, "im%d" % k)


def clash_schemas(tier):
    """yield (desc, Schema)"""
    yield from impl_name_schemas(tier)
    k = 0
    slots = SLOTS
    pl = pool("nm")
    combos = list(itertools.combinations(slots, 2))
    if tier == "quick":
        pl = ["x", "x_0", "x_entry", "types", "schema", "nm"]
        # quick: every slot pair once, pool names cycling (so that every pair and every pool name occurs)
        for i, (a, b) in enumerate(combos):
            name = pl[i % len(pl)]
            k += 1
            yield "pair:%s=%s=%s" % (a, b, name), template({a: name, b: name}, "nm%d" % k)
        # mangled-name patterns: x next to x_0 / x_entry in every slot pair of the same kind
        for a, b in (("group", "nested"), ("group", "field"), ("msg", "msg2"), ("comp", "type"), ("comp", "inner"), ("group", "msg"), ("nested", "data")):
            for na, nb in (("x", "x_0"), ("x", "x_entry"), ("x_0", "x_0_entry"), ("x_entry", "x")):
                k += 1
                yield "mangle:%s=%s,%s=%s" % (a, na, b, nb), template({a: na, b: nb}, "nm%d" % k)
        return
    for a, b in combos:
        for name in pl:
            k += 1
            yield "pair:%s=%s=%s" % (a, b, name), template({a: name, b: name}, "nm%d" % k)
    for a, b in itertools.permutations(slots, 2):
        for na, nb in (("x", "x_0"), ("x", "x_entry"), ("x_0", "x_0_entry"), ("types", "messages"), ("x", "x_1")):
            k += 1
            yield "mangle:%s=%s,%s=%s" % (a, na, b, nb), template({a: na, b: nb}, "nm%d" % k)
    for a, b, c in itertools.combinations(slots[::2], 3):
        for name in ("x", "schema", "x_entry"):
            k += 1
            yield "triple:%s=%s=%s=%s" % (a, b, c, name), template({a: name, b: name, c: name}, "nm%d" % k)


# ---------------------------------------------------------------- concatenated names

CPOOL = ["a", "a_b", "b", "b_c", "c", "a_b_c", "num_in_group", "total_data_size"]


def _trees(n_groups, depth_left, names):
    """all forests with exactly n_groups groups, depth <= depth_left, sibling names distinct; a tree = (name, children)"""
    if n_groups == 0:
        yield []
        return
    if depth_left == 0:
        return
    # first tree takes k groups (1 root + k-1 descendants), the rest form the remaining forest
    for k in range(1, n_groups + 1):
        for name in names:
            for children in _trees(k - 1, depth_left - 1, names):
                for rest in _trees(n_groups - k, depth_left, names):
                    if any(r[0] == name for r in rest):
                        continue
                    if rest and rest[0][0] < name:
                        continue   # canonical sibling order is not required by SBE, but avoids permuted duplicates
                    yield [(name, children)] + rest


def concat_messages(tier):
    """yield (desc, Msg) -- group trees over CPOOL (with data members at some levels)"""
    names = CPOOL[:5] if tier == "quick" else CPOOL
    max_groups = 3 if tier == "quick" else 4
    k = 0
    for n in range(1, max_groups + 1):
        for forest in _trees(n, 3, names):
            k += 1
            ids = itertools.count(1)

            def build(tree, depth):
                name, children = tree
                return Group(name, next(ids), [Field("v", next(ids), "uint8")], [build(c, depth + 1) for c in children],
                             [Data("d", next(ids), "varDataEncoding")] if (depth + len(children)) % 2 == 0 else [])

            def show(t):
                return t[0] + ("(" + ",".join(show(c) for c in t[1]) + ")" if t[1] else "")

            yield "concat:" + "+".join(show(t) for t in forest), Msg("cm%d" % k, k, [Field("r", 900, "uint8")], [build(t, 0) for t in forest],
                                                                     [Data("d", 901, "varDataEncoding")] if k % 3 == 0 else [])


def concat_schemas(tier, pack=40):
    msgs = list(concat_messages(tier))
    out = []
    for i in range(0, len(msgs), pack):
        chunk = msgs[i:i + pack]
        ms = []
        for j, (d, m) in enumerate(chunk):
            m.id = j + 1
            ms.append(m)
        out.append((Schema("cc%d" % (i // pack), [std_header(), std_group_dim(), std_var_data()], ms, id=4, version=0), [d for d, _ in chunk]))
    return out


# ---------------------------------------------------------------- attribute values

STRING_TOKENS = ['plain', 'quo"te', 'back\\slash', "apo'strophe", "*/ comment", "%s %d {} {0}", "café", "tab\there", "??/", "<&>"]
STRING_TOKENS_QUICK = ['quo"te', 'back\\slash', "apo'strophe", "*/ {} %s", "café", "<&>"]


def attribute_schemas(tier):
    """one small schema per (string attribute kind, token)"""
    toks = STRING_TOKENS_QUICK if tier == "quick" else STRING_TOKENS
    k = 0
    for tok in toks:
        for where in ("schema.description", "schema.semanticVersion", "type.description", "type.semanticType", "type.characterEncoding",
                      "enum.description", "validValue.description", "set.description", "choice.description", "composite.description",
                      "composite.semanticType", "message.description", "message.semanticType", "field.description", "group.description",
                      "group.semanticType", "data.description", "constant.text", "char-enum.value"):
            k += 1
            s = template({}, "at%d" % k)
            target, attr = where.split(".")
            if target == "schema":
                setattr(s, {"description": "desc", "semanticVersion": "sem_version"}[attr], tok)
            elif target == "type":
                t = s.type_by_name(FRESH["type"])
                if attr == "characterEncoding":
                    s.types.append(T("chr", "char", char_enc=tok))
                else:
                    setattr(t, {"description": "desc", "semanticType": "sem"}[attr], tok)
            elif target == "enum":
                s.type_by_name(FRESH["enum"]).desc = tok
            elif target == "validValue":
                e = s.type_by_name(FRESH["enum"])
                e.values = [(e.values[0][0], e.values[0][1], {"description": tok})] + e.values[1:]
            elif target == "set":
                s.type_by_name(FRESH["set"]).desc = tok
            elif target == "choice":
                st = s.type_by_name(FRESH["set"])
                st.choices = [(st.choices[0][0], st.choices[0][1], {"description": tok})] + st.choices[1:]
            elif target == "composite":
                setattr(s.type_by_name(FRESH["comp"]), {"description": "desc", "semanticType": "sem"}[attr], tok)
            elif target == "message":
                setattr(s.msgs[0], {"description": "desc", "semanticType": "sem"}[attr], tok)
            elif target == "field":
                s.msgs[0].fields[0].desc = tok
            elif target == "group":
                setattr(s.msgs[0].groups[0], {"description": "desc", "semanticType": "sem"}[attr], tok)
            elif target == "data":
                s.msgs[0].data[0].desc = tok
            elif target == "constant":
                if "\t" in tok or not tok:
                    continue
                s.types.append(T("kstr", "char", presence="constant", const=tok))
                s.msgs[1].fields.append(Field("kf", 9, "kstr"))
            elif target == "char-enum":
                for ch in tok:
                    if ord(ch) < 128 and ch not in "\t":
                        s.types.append(Enum("ce%d" % ord(ch), "char", [("V", ch)]))
                s.msgs[1].fields.append(Field("cef", 8, s.types[-1].name))
            yield "attr:%s=%r" % (where, tok), s


NUMERIC_FORMS = ["08", "-0", "007", "+5", "1e3", ".5", "1.", "+1.5", "-INF", "0x10", "1E2", " 7", "7 ", "1_000"]


def numeric_schemas(tier):
    """numeric literal forms in every numeric attribute (only accepted ones matter)"""
    forms = NUMERIC_FORMS[:8] if tier == "quick" else NUMERIC_FORMS
    k = 0
    for form in forms:
        for where in ("type.minValue", "type.maxValue", "opt.nullValue", "const.int", "const.float", "float.minValue", "validValue", "choice",
                      "schema.id", "schema.version", "message.id", "field.id", "field.offset", "message.blockLength", "type.sinceVersion", "array.length"):
            k += 1
            s = template({}, "nu%d" % k)
            if where == "type.minValue":
                s.types.append(T("tn", "int32", mn=form))
            elif where == "type.maxValue":
                s.types.append(T("tn", "int32", mx=form))
            elif where == "opt.nullValue":
                s.types.append(T("tn", "int32", presence="optional", nl=form))
            elif where == "const.int":
                s.types.append(T("tn", "int32", presence="constant", const=form))
            elif where == "const.float":
                s.types.append(T("tn", "double", presence="constant", const=form))
            elif where == "float.minValue":
                s.types.append(T("tn", "float", mn=form))
            elif where == "validValue":
                s.types.append(Enum("tn", "int32", [("A", form)]))
            elif where == "choice":
                s.types.append(SetT("tn", "uint32", [("A", form)]))
            elif where == "schema.id":
                s.id = form
            elif where == "schema.version":
                s.version = form
            elif where == "message.id":
                s.msgs[1].id = form
            elif where == "field.id":
                s.msgs[1].fields[0].id = form
            elif where == "field.offset":
                s.msgs[1].fields[0].offset = form
            elif where == "message.blockLength":
                s.msgs[1].block_length = form
            elif where == "type.sinceVersion":
                s.types.append(T("tn", "int32", since=form))
            elif where == "array.length":
                s.types.append(T("tn", "char", length=form))
            if s.type_by_name("tn") is not None:
                s.msgs[1].fields.append(Field("tnf", 7, "tn"))
            yield "num:%s=%r" % (where, form), s
    # boundary values of every integer primitive in every value-carrying attribute (the emitted literal has to be valid C++
    # for each of them: INT64_MIN cannot be spelled as one literal, its neighbours can)
    R = {"int8": (-128, 127), "uint8": (0, 255), "int16": (-32768, 32767), "uint16": (0, 65535), "int32": (-2 ** 31, 2 ** 31 - 1),
         "uint32": (0, 2 ** 32 - 1), "int64": (-2 ** 63, 2 ** 63 - 1), "uint64": (0, 2 ** 64 - 1)}
    for bi, bname in enumerate(("min", "min+1", "max-1", "max")):
        for where in ("minValue", "maxValue", "nullValue", "constant", "validValue"):
            k += 1
            s = template({}, "nu%d" % k)
            fid = 30
            for p, (lo, hi) in R.items():
                v = (lo, lo + 1, hi - 1, hi)[bi]
                nm = "b_" + p
                if where == "minValue":
                    s.types.append(T(nm, p, mn=v))
                elif where == "maxValue":
                    s.types.append(T(nm, p, mx=v))
                elif where == "nullValue":
                    s.types.append(T(nm, p, presence="optional", nl=v))
                elif where == "constant":
                    s.types.append(T(nm, p, presence="constant", const=v))
                else:
                    s.types.append(Enum(nm, p, [("A", v), ("B", lo + 2)]))
                s.msgs[1].fields.append(Field("f_" + p, fid, nm))
                fid += 1
            yield "num:boundary:%s=%s" % (where, bname), s
    # ids that exceed the header field's type
    for where, val in (("message.id", 70000), ("schema.id", 70000), ("schema.version", 70000), ("message.blockLength", 70000)):
        k += 1
        s = template({}, "nu%d" % k)
        if where == "message.id":
            s.msgs[1].id = val
        elif where == "schema.id":
            s.id = val
        elif where == "schema.version":
            s.version = val
        else:
            s.msgs[1].block_length = val
        yield "num:%s=%d (header field is uint16)" % (where, val), s


# ---- references spelled with a different letter case than the definition (sbeppc resolves type references
# case-insensitively; file names, namespaces and tags come from the definition's spelling)
def _refcase_base(package):
    types = [Comp("MixedHeader", [T("blockLength", "uint16"), T("templateId", "uint16"), T("schemaId", "uint16"), T("version", "uint16")]),
             std_group_dim(), std_var_data(),
             T("MixedType", "uint16"), T("EncType", "uint8"),
             Enum("MixedEnum", "EncType", [("Aa", 1), ("Bb", 2)]),
             SetT("MixedSet", "EncType", [("c0", 0), ("c5", 5)]),
             T("MixedConst", "uint8", presence="constant", value_ref="MixedEnum.Aa"),
             Comp("MixedComp", [T("m1", "uint8"), Ref("rt", "MixedType"), Ref("re", "MixedEnum"), Ref("rc", "MixedConst")]),
             Comp("MixedDim", [T("blockLength", "uint8"), T("numInGroup", "uint16")]),
             Comp("MixedData", [T("length", "uint16"), T("varData", "uint8", length=0)])]
    msgs = [Msg("mm", 1, [Field("f1", 1, "MixedType"), Field("f2", 2, "MixedEnum"), Field("f3", 3, "MixedSet"), Field("f4", 4, "MixedComp"),
                          Field("f5", 5, "MixedEnum", presence="constant", value_ref="MixedEnum.Bb")],
                [Group("g", 10, [Field("x", 11, "MixedType")], [], [Data("gd", 12, "MixedData")], dim="MixedDim")],
                [Data("d", 20, "MixedData")])]
    return Schema(package, types, msgs, id=3, version=0, header_type="MixedHeader")


def _refcase_sites():
    """(label, getter(schema) -> (object, attribute, which part))"""
    def f(i):
        return lambda s: s.msgs[0].fields[i]

    def m(i):
        return lambda s: s.type_by_name("MixedComp").members[i]

    return [("field->type", f(0), "type"), ("field->enum", f(1), "type"), ("field->set", f(2), "type"), ("field->composite", f(3), "type"),
            ("field.valueRef", f(4), "value_ref"), ("field(constant)->enum", f(4), "type"),
            ("group.dimensionType", lambda s: s.msgs[0].groups[0], "dim"),
            ("group-field->type", lambda s: s.msgs[0].groups[0].fields[0], "type"),
            ("data(message)->composite", lambda s: s.msgs[0].data[0], "type"), ("data(group)->composite", lambda s: s.msgs[0].groups[0].data[0], "type"),
            ("schema.headerType", lambda s: s, "header_type"),
            ("ref->type", m(1), "type"), ("ref->enum", m(2), "type"), ("ref->constant-type", m(3), "type"),
            ("enum.encodingType", lambda s: s.type_by_name("MixedEnum"), "enc"), ("set.encodingType", lambda s: s.type_by_name("MixedSet"), "enc"),
            ("type.valueRef", lambda s: s.type_by_name("MixedConst"), "value_ref")]


def _respell(v, how):
    head, dot, tail = v.partition(".")      # for valueRef only the enum part is a type reference
    head = {"upper": head.upper(), "lower": head.lower(), "swap": head.swapcase()}[how]
    return head + dot + tail


def refcase_schemas(tier):
    hows = ("upper",) if tier == "quick" else ("upper", "lower", "swap")
    k = 0
    sites = _refcase_sites()
    for how in hows:
        for label, get, attr in sites:
            k += 1
            s = _refcase_base("rc%d" % k)
            o = get(s)
            setattr(o, attr, _respell(getattr(o, attr), how))
            yield "refcase:%s:%s" % (label, how), s
    for how in ("lower", "upper", "swap"):
        k += 1
        s = _refcase_base("rc%d" % k)
        for label, get, attr in sites:
            o = get(s)
            setattr(o, attr, _respell(getattr(o, attr), how))
        yield "refcase:all-sites:%s" % how, s
