"""Verification machinery for OleksandrKvl/sbepp (model-checking family). See /verif/DESIGN.md."""
