"""Regenerates /verif/MANIFEST.json from the table below (python3 -m vlib.manifest)."""
import json
import os

from . import repo

CHECKS = {
    "C01": dict(category="model_checking", design_ref="DESIGN.md 5 / C01",
                technique="stateless exploration of the real generated encoders: state = buffer contents, transition = one encode op; every in-order script of the bounded grammar executed on the emitted accessors (random access / cursor / set_by_tag) and compared with an independent SBE codec after every op via a shadow buffer",
                text="For every message shape of the catalogue (level layouts x placements, group/data structures, all 16 dimension and 4 length types, both byte orders), every size vector of the stated ladder rung, two value vectors, two start buffers (pattern / stale valid image) and the write masks, the complete encode script is run on the code sbeppc emitted from the working tree; after each op the whole buffer (message + canary) must equal the model's image-so-far laid over the background. Complete within the stated bounds; schemas outside the grammar are not covered.",
                note="Trusted: compilers, the reference model vlib/model (layout+codec, self-checked by decode(encode(x))==x and by agreement with the implementation on ~10^6 ops), the driver generator (names only)."),
    "C02": dict(category="exploration", design_ref="DESIGN.md 5 / C02",
                technique="bounded-exhaustive enumeration of well-formed images produced by an independent encoder, decoded by generated readers (random access, cursor traversal, get_by_tag) on the real accessors; bit-exact comparison",
                text="Every image of the bounded space (catalogue shapes x size vectors x value vectors, both byte orders, plus the kinds schema with every primitive and NaN/boundary patterns) is encoded by the reference codec and decoded completely by the emitted accessors; every value (as bit pattern), constant and view address must match. No history, hence exploration.",
                note="Trusted: compilers, reference codec. Constant evaluation: static_assert tables over constexpr images of the kinds schema on the C++20/23 cells."),
    "C13": dict(category="model_checking", design_ref="DESIGN.md 5 / C13",
                technique="explicit-state exploration of the real dynamic_array_ref: closed state space (all sequences <= capacity over a 3-letter alphabet), every operation x every argument tuple from every state, std::vector as reference model",
                text="Every transition of the closed small-state space is executed on the implementation for all 4 length types x 2 byte orders x 3 element types x 2 byte types and compared with std::vector (size prefix, payload, returned iterator, untouched bytes, no assertion for vector-valid ops). Complete within the capacity bound; says nothing about sequences whose intermediate sizes exceed the capacity.",
                note="Trusted: g++/clang++ and libstdc++ (std::vector as the reference), the harness's signal/assert capture. resize(n, default_init) contents of new elements are unspecified and not compared."),
    "C14": dict(category="model_checking", design_ref="DESIGN.md 5 / C14",
                technique="explicit-state exploration of the real static_array_ref: all 3^N contents x all inputs of length 0..N x all overloads x three eos modes, reference from the documented semantics",
                text="For N=0..4 every array content over {NUL,a,b} is a state; every assignment overload with every input string/range of admissible length and every eos mode is executed on the implementation and compared byte-for-byte (content, padding, returned iterator, guard bytes) with a ten-line reference; strlen/strlen_r/element access for every content. Complete within the stated scope.",
                note="Trusted: compilers, libstdc++, harness capture. Scope: N<=4, 3-letter alphabet, char and uint8 element types."),
    "C15": dict(category="model_checking", design_ref="DESIGN.md 5 / C15",
                technique="explicit-state enumeration of the real generated set classes: complete value space for 8/16-bit sets x every index x {get,set0,set1} x {named, by-tag, visit}; structured value alphabet for 32/64-bit",
                text="8- and 16-bit sets: every underlying value x every choice index x every operation is executed on the generated accessors (complete state space). 32/64-bit: walking-bit/complement/boundary patterns x every index. Oracle: Python-style integer bit arithmetic in the harness. Constant evaluation: static_assert table in C++14+ cells.",
                note="Trusted: compilers, harness. 32/64-bit value spaces are covered by a structured subset only (stated in evidence)."),
    "C03": dict(category="exploration", design_ref="DESIGN.md 5 / C03",
                technique="bounded-exhaustive enumeration of images whose wire blockLength is extended independently at every level (3^L vectors), decoded by generated readers on the real accessors against an independent codec",
                text="Every image of the bounded space is re-encoded by the reference codec with the root block and every group's entry block extended by 0, 1 or 7 bytes independently per level (and, one level at a time, grown to a wire blockLength of 300), then decoded by random access, plain cursor traversal and get_by_tag; every compiled field, entry, nested group and data member must be found where the wire image puts it and size_bytes of message/group/entry must equal the wire size.",
                note="Trusted: compilers, reference codec. Visiting under extension is C19's recorder on the same images."),
    "C04": dict(category="model_checking", design_ref="DESIGN.md 5 / C04, Appendix A",
                technique="explicit-state exploration of the cursor protocol on the real accessors: states = every byte offset of the image (+null) for every view reachable by random access, transitions = every (member, wrapper, get/set) label from every state; plus complete traversals under every cyclic wrapper-choice string and every group iteration style; reference = documented protocol table",
                text="For each image the cursor is placed at every offset 0..len and null; from each state every cursor accessor of every view with every wrapper is called in a checked build. Legal calls must return the random-access value/address and leave the cursor at the documented position; illegal plain/dont_move/skip calls must reach the assertion handler (no silent return, no fault). Complete in-order traversals with all wrapper choice strings up to the length bound and five iteration styles must end at the message end.",
                note="Trusted: compilers, the protocol table (DESIGN.md Appendix A), harness capture of the assertion handler via siglongjmp."),
    "C05": dict(category="exploration", design_ref="DESIGN.md 5 / C05",
                technique="bounded-exhaustive enumeration: (i) every size query on every view of every catalogue image vs. the reference image length (random access + cursor), (ii) trait-level size_bytes(counts..., total_data) for the message and every group instance, (iii) all 16 dimension type pairs / 4 length types x boundary header values in a header-only guarded buffer vs. a 128-bit product",
                text="Five numbers are required to agree for every instance of the bounded space: run-time size_bytes of the message and of each member/sub-view, the cursor-based size after a traversal, the trait formula with the model's per-level totals, and the length of the image produced by the reference encoder. Products beyond 31/32 bits are covered by writing boundary values of every header field type into a header-only buffer.",
                note="Trusted: compilers, reference model, unsigned __int128 product as oracle. Sizes that do not fit size_t are excluded as the property states."),
    "C06": dict(category="fault_enumeration", design_ref="DESIGN.md 5 / C06, 9",
                technique="fault enumeration over well-formed images on the real size_bytes_checked: every truncation point and every corruption of every blockLength/numInGroup/length instance, in a release build on an exact-size buffer ending at a PROT_NONE page with a CPU budget; reference = structural walk with unbounded integers",
                text="For every image of the bounded space: every n in 0..len (+ trailing junk; catalogue shapes and header layouts incl. 64-bit message-header members) and every header-field instance overwritten with 0, 1, fit-1, fit+1, max/2+1, max-1, max; size_bytes_checked(message | top-level group, n) must return (no fault = no read at offset >= n, no budget overrun = work bounded by n) and its (valid, size) must equal the reference walk's. Four genuine defect classes are recorded as known findings; every other disagreement is a violation.",
                note="Trusted: kernel guard pages, ITIMER_VIRTUAL budget (100 ms for microseconds of legitimate work), the reference walk."),
    "C07": dict(category="exploration", design_ref="DESIGN.md 5 / C07",
                technique="bounded-exhaustive enumeration of schema families (name-clash assignments over a fixed identifier pool, concatenated-name group forests, string attribute values, numeric literal forms and integer boundary values, command-line options --schema-name / --inject-include, kinds, catalogue, header layouts); for every schema sbeppc accepts: each emitted header compiled alone, a by-name TU, the complete accessor driver and the traits TU compiled (and name traits compared) on the compiler x standard cells, with warnings enabled so that required diagnostics stay errors",
                text="Every accepted schema of the families must yield headers that compile on their own and a TU that names every type, enumerator, choice, message and tag at its documented path and calls every accessor form (random access, cursor with every wrapper, by-tag, header fillers); every name trait must equal the schema name whatever clashes exist. Schemas sbeppc rejects are only counted.",
                note="Trusted: g++ 12 / clang++ 14 as the definition of 'compiles'. 'All attribute values' is infinite: a token set is enumerated."),
    "C08": dict(category="exploration", design_ref="DESIGN.md 5 / C08",
                technique="bounded-exhaustive enumeration of (valid base schema x applicable position x rule-breaking edit) with the valid boundary twin next to each edit, each run through the tree's sbeppc; verdicts from a rule catalogue written from the SBE spec and the documentation",
                text="For each base (kinds, catalogue shapes, header layouts) every position where a rule applies gets the rule-breaking value and its valid twin (min-1/min offset, size-1/size blockLength, max+1/max for every primitive and attribute, width/width-1 choice, unknown/wrong-kind/cyclic references, int16[2]/uint8[2], missing/array/constant header members, invalid/keyword/duplicate names, duplicate ids, member order). Reject <=> non-zero exit with a located diagnostic; accept <=> exit 0 with an output tree.",
                note="Trusted: the rule catalogue (vlib/enum/ruleedits.py). Rules sbeppc documents as not enforced (non-integer header members) are run for totality only."),
    "C09": dict(category="exploration", design_ref="DESIGN.md 5 / C09",
                technique="bounded-exhaustive enumeration of the complete single-mutation neighbourhood of seed schemas (structure-aware XML operators x token set), all argument vectors up to a length bound, include graphs and raw inputs, each executed on a sanitized (ASan+UBSan, asserts on) sbeppc with a time limit; outcome classification",
                text="Every mutant is run once into a fresh output directory: allowed outcomes are exit 0, or a non-zero exit with an `Error` diagnostic and no file left behind. Death by signal, sanitizer reports, failed assertions, uncaught exceptions, timeouts, silent non-zero exits and leftovers are violations, identified by their call site (exception type / assertion / sanitizer frame).",
                note="Trusted: ASan/UBSan as oracles for undefined behaviour, pugixml/fmt as linked. 'All byte strings' is infinite: the claim is the complete neighbourhood over the stated operators and tokens."),
    "C10": dict(category="fault_enumeration", design_ref="DESIGN.md 5 / C10",
                technique="fault enumeration: every view length n in 0..len (buffer ending at a PROT_NONE page) x every accessor / iterator step / container operation of the generated views, each op individually guarded in a checked build; plus header-steered variants; outcome classes OK / HANDLER / FAULT",
                text="For every image of the bounded space and every truncation length, each operation of the op table is run on a view bound to exactly n bytes: a fault at or beyond p+n means the operation touched memory outside the view without the assertion handler (violation); the handler firing although the whole addressed sub-object lies inside the buffer is a spurious assertion (violation). Corrupted header fields steer dynamic offsets past the end; there only the first direction is judged.",
                note="Trusted: guard pages, siglongjmp capture of the documented assertion handler. Accesses *before* p (pointer wrap-around) and CPU time are outside this property's sentence and are counted, not judged."),
    "C11": dict(category="exploration", design_ref="DESIGN.md 5 / C11",
                technique="bounded-exhaustive enumeration of the complete mutator list of every generated view class x const byte/cursor combinations as detection-idiom probes (positive control on the mutable twin), second-stage real-call compiles for what the idiom cannot decide, conversion pairs, and every non-mutating operation executed on images mapped PROT_READ",
                text="For kinds (byte types char, unsigned char, volatile char and their const forms) and a stride of the catalogue: every setter, set_by_tag, cursor setter, header filler, resize/clear and every dynamic/static array mutator overload incl. element assignment is probed for (V<const B>), (V<const B>,cursor<B>), (V<B>,cursor<const B>), (V<const B>,cursor<const B>): none may compile, the mutable twin must. Views/cursors convert implicitly only towards more-const. All getters, size queries, iterators, cursor traversals, by-tag reads and visits run on read-only mappings, where any write faults.",
                note="Trusted: compilers (SFINAE / hard errors), mprotect."),
    "C12": dict(category="model_checking", design_ref="DESIGN.md 5 / C12",
                technique="explicit-state exploration of the real group iterators: state = iterator index, all iterator-op sequences up to depth 3 from begin() and end(), integer index model; all 16 dimension type pairs",
                text="For each of the 16 (numInGroup, blockLength) type pairs x group sizes 0..3 x wire block lengths {0,1,2,5}: every in-domain sequence of iterator operations up to the depth bound is executed on the generated group views; after every step the entry address, it[k], (it+k)-k, distances and all six orderings against an iterator at every index are compared with index arithmetic. Nested groups: all inner-count vectors over {0,1,2}^n. resize/clear are checked to change only numInGroup.",
                note="Trusted: compilers, harness. Scope: sizes <= 3, so difference_type range issues of small numInGroup types are not exercised."),
    "C16": dict(category="exploration", design_ref="DESIGN.md 5 / C16",
                technique="bounded-exhaustive enumeration: 11 primitives x {built-in, generated implicit, generated explicit} x all ordered pairs of a boundary value set x all predicates/operators, executed on the real types against the documented rules",
                text="Every ordered pair of boundary values (incl. null, NaN variants, infinities, extremes) for every primitive and type kind is run through has_value/bool/value_or/in_range and all comparison operators (operator<=> cells and pre-C++20 cells are different code) and compared with a reference function; static min/max/null are compared with the SBE table typed in independently. No history, hence exploration.",
                note="Trusted: compilers, the reference function (documented rules), the typed-in SBE default table."),
    "C17": dict(category="exploration", design_ref="DESIGN.md 5 / C17",
                technique="bounded-exhaustive enumeration of header composite layouts (permutations, optional counters, extra members, gaps, refs, integer types) x levels x numInGroup arguments; the real fillers run inside complete encode scripts and the whole buffer is compared with the reference model after every op",
                text="Every messageHeader layout of the grammar (own schema each) and every group dimension layout is compiled by the tree's sbeppc; fill_message_header / fill_group_header (with 0, 1, max-1, max and the real count) are executed and the buffer must equal the model's header values at the layout's offsets/types/byte order with every other byte (gaps, extra members, canary) unchanged; the returned view must be the header.",
                note="Trusted: compilers, reference model. numInGroup as <ref> is outside the alphabet (sbeppc aborts on it: C09)."),
    "C18": dict(category="exploration", design_ref="DESIGN.md 5 / C18",
                technique="bounded-exhaustive enumeration over the entities of generated schemas: every value-valued trait printed by a generated TU and diffed against records derived from the IR; type-valued traits, tag lists, value_type/traits_tag round trips and tag-kind predicates as static_asserts compiled on each cell",
                text="For kinds (plain and attribute-rich), a stride of the catalogue and the header/dimension layout schemas, every entity's expected trait record is derived from the IR with the SBE rules (offsets, block lengths, presence, default min/max/null, lengths, ids, versions) and compared with what the emitted traits return; lists of children must be exactly the entity's children in schema order; each tag satisfies exactly its own kind predicate.",
                note="Trusted: compilers, the derivation rules in vlib/gen/traitx.py. Out of alphabet: presence=optional on enum/set fields, offset on public types; value_type_tag of constant fields is not demanded."),
    "C19": dict(category="model_checking", design_ref="DESIGN.md 5 / C19",
                technique="history exploration of the real visitors: a recording visitor is run to completion and with 'return true at the k-th callback' for every k; the event log (callback kind, member tag type, value bits / view address) is compared with the model's list, for kinds + catalogue schemas",
                text="For every image of the bounded space the complete callback sequence and every prefix (stop at the k-th callback, all k) are executed on the generated visit entry points; each non-constant member must be reported once, in schema order, with its own tag type (checked through a generated tag-type -> path overload set) and the named accessor's value/address; entries in index order; enums report their value tag or unknown, sets every choice with its bit; after a complete visit the cursor is at the end of the visited view. Also under extended wire block lengths.",
                note="Trusted: compilers, model. get_by_tag/set_by_tag equivalence is decided by the 'tag' drivers of C01/C02."),
    "C20": dict(category="fault_enumeration", design_ref="DESIGN.md 5 / C20",
                technique="fault enumeration over every output I/O call of a run (LD_PRELOAD shim owning mkdir/fopen/open/write/writev/fclose/close on the output tree, cross-checked against strace): the k-th call fails for every k with each applicable errno / short write; exit status and output tree compared with the fault-free baseline; rerun determinism",
                text="For several schemas the fault-free run's call log defines the fault space; every single call is failed in turn (EACCES/ENOSPC/EMFILE/EIO, short write then ENOSPC) in a fresh directory: exit 0 is accepted only with a tree byte-identical to the baseline, a non-zero exit needs a diagnostic, death by signal is a violation. Fault-free runs into fresh / populated directories and from another cwd must give identical trees.",
                note="Trusted: the shim's ownership of the output I/O (verified per schema against strace counts), the dynamic linker. Read-side faults (schema file) are C09's."),
}

NOT_YET = "not built yet in this round (planned, see DESIGN.md section 5)"


def build():
    props = [json.loads(l)["id"] for l in open(os.path.join(repo.VERIF, "properties.jsonl"))]
    checks = []
    for pid in props:
        if pid not in CHECKS:
            continue
        c = CHECKS[pid]
        checks.append({
            "property_id": pid,
            "quick_cmd": "python3 -m vlib.cli check %s --tier quick" % pid,
            "thorough_cmd": "python3 -m vlib.cli check %s --tier thorough" % pid,
            "evidence_file": "/verif/evidence/%s.json" % pid,
            "replay_cmd_template": "python3 -m vlib.cli check %s --replay {path}" % pid,
            "engine": "vlib",
            "level_claimed": {"category": c["category"], "text": c["text"], "design_ref": c["design_ref"]},
            "level_note": c["note"],
            "technique": c["technique"],
        })
    m = {
        "version": 1,
        "setup_cmd": "python3 -m vlib.cli setup",
        "hooks": {"guard": "SBEPP_VERIF", "enable": "no source hooks are needed: checks build sbeppc and the generated headers from /repo's working tree and observe through public/tag accessors, the documented assertion handler, guard pages and LD_PRELOAD",
                  "baseline_off_cmd": "cmake --build /repo/_build -j16 && ctest --test-dir /repo/_build -j16 --timeout 900",
                  "source_commits": [], "add_only": True},
        "engines": [{"name": "vlib", "path": "/verif/vlib", "serves_properties": sorted(CHECKS),
                     "kind_free_text": "bounded-exhaustive stateless exploration of the real implementation (generated headers + sbepp.hpp + sbeppc) against an independent reference model; explicit-state search where the state space closes"}],
        "checks": checks,
        "not_applicable": [{"property_id": p, "reason": NOT_YET} for p in props if p not in CHECKS],
        "notes": "See DESIGN.md. Fixed defects and known findings: /verif/known_findings.json.",
    }
    with open(os.path.join(repo.VERIF, "MANIFEST.json"), "w") as fh:
        json.dump(m, fh, indent=1)
        fh.write("\n")
    return m


if __name__ == "__main__":
    build()
    print("MANIFEST.json written")
