"""C10 generator: per-op guarded probes of every accessor kind on a view bound to exactly n bytes (checked build).
The model supplies, per sub-object, its extents (start / header or prefix end / end); the C++ side derives each op's
`need` from them.  Walk order is shared with `extent_tokens`."""
from . import walk


class ProbeEmitter:
    def __init__(self, schema):
        self.n = walk.Names(schema)
        self.uid = 0
        self._skn = 0
        self._skippers, self._skip_src = {}, []

    def fresh(self, p):
        self.uid += 1
        return "%s%d" % (p, self.uid)

    def node(self, out, node, view, name, tagpath, ind, on_level):
        """probes for one member `name` of `view`; tokens: off end"""
        a = out.append
        get = "%s.%s()" % (view, name)
        a('%s{ long o_ = (long)in.num(), e_ = (long)in.num(); (void)o_;' % ind)
        if on_level:
            # r_: the cursor position this member requires (end of the previous non-constant field / block start)
            a('%s  long r_ = (long)in.num(); (void)r_;' % ind)
            wr = [("plain", "c_"), ("dont_move", "::sbepp::cursor_ops::dont_move(c_)"), ("init_dont_move", "::sbepp::cursor_ops::init_dont_move(c_)")]
            cdecl = "::sbepp::cursor<unsigned char> c_; c_.pointer() = p.base + r_;"
            if node.kind == "scalar":
                for wn, w in wr:
                    a('%s  p.op("field:cursor-%s-get", e_, [&] { %s p.sink += ::drv::bits_of(%s.%s(%s)); });' % (ind, wn, cdecl, view, name, w))
                    a('%s  p.op("field:cursor-%s-set", e_, [&] { %s using V_ = typename std::decay<decltype(%s)>::type; %s.%s(V_{}, %s); });'
                      % (ind, wn, cdecl, get, view, name, w))
                    a('%s  p.op("field:cursor-%s-set_by_tag", e_, [&] { %s using V_ = typename std::decay<decltype(%s)>::type; ::sbepp::set_by_tag<%s::%s>(%s, V_{}, %s); });'
                      % (ind, wn, cdecl, get, tagpath, name, view, w))
            else:
                for wn, w in wr + [("init", "::sbepp::cursor_ops::init(c_)")]:
                    a('%s  p.op("%s:cursor-%s-view-use", e_, [&] { %s auto v_ = %s.%s(%s); p.sink += ::sbepp::size_bytes(v_); %s });'
                      % (ind, node.kind, wn, cdecl, view, name, w,
                         "for(auto x_ : v_) p.sink += (unsigned char)x_;" if node.kind == "array" else ""))
            a('%s  p.op("member:cursor-skip", e_, [&] { %s %s.%s(::sbepp::cursor_ops::skip(c_)); p.sink += (::drv::u64)c_.pointer(); });' % (ind, cdecl, view, name))
        if node.kind == "scalar":
            a('%s  p.op("field:get", e_, [&] { p.sink += ::drv::bits_of(%s); });' % (ind, get))
            a('%s  p.op("field:get_by_tag", e_, [&] { p.sink += ::drv::bits_of(::sbepp::get_by_tag<%s::%s>(%s)); });' % (ind, tagpath, name, view))
            a('%s  p.op("field:set", e_, [&] { using V_ = typename std::decay<decltype(%s)>::type; %s.%s(V_{}); });' % (ind, get, view, name))
            if on_level:
                a('%s  p.op("field:cursor-init-get", e_, [&] { ::sbepp::cursor<unsigned char> c_; p.sink += ::drv::bits_of(%s.%s(::sbepp::cursor_ops::init(c_))); });'
                  % (ind, view, name))
                a('%s  p.op("field:cursor-init-set", e_, [&] { ::sbepp::cursor<unsigned char> c_; using V_ = typename std::decay<decltype(%s)>::type; %s.%s(V_{}, ::sbepp::cursor_ops::init(c_)); });'
                  % (ind, get, view, name))
        elif node.kind == "array":
            v = self.fresh("a")
            a('%s  typename std::decay<decltype(%s)>::type %s;' % (ind, get, v))
            a('%s  if(p.op("array:view", e_, [&] { %s = %s; })) {' % (ind, v, get))
            a('%s    p.op("array:index", e_, [&] { for(std::size_t i_ = 0; i_ < %s.size(); i_++) p.sink += (unsigned char)%s[i_]; });' % (ind, v, v))
            a('%s    p.op("array:iterate", e_, [&] { for(auto x_ : %s) p.sink += (unsigned char)x_; });' % (ind, v))
            a('%s    p.op("array:front-back", e_, [&] { if(%s.size()) p.sink += (unsigned char)%s.front() + (unsigned char)%s.back(); });' % (ind, v, v, v))
            a('%s    p.op("array:strlen_r", e_, [&] { p.sink += %s.strlen_r(); });' % (ind, v))
            if node.prim == "char":
                # strlen() is only well-formed for char arrays; on an array without a NUL it must stop at element N-1
                a('%s    p.op("array:strlen", e_, [&] { p.sink += %s.strlen(); });' % (ind, v))
            a('%s    p.op("array:fill", e_, [&] { %s.fill(typename decltype(%s)::value_type{}); });' % (ind, v, v))
            a('%s    p.op("array:assign", e_, [&] { %s.assign(%s.size(), typename decltype(%s)::value_type{}); });' % (ind, v, v, v))
            a('%s    p.op("array:size_bytes", e_, [&] { p.sink += ::sbepp::size_bytes(%s); });' % (ind, v))
            # the re-typed view returned by raw() is a derived view: it must carry the same end
            a('%s    p.op("array:raw-index", e_, [&] { auto r_ = %s.raw(); for(std::size_t i_ = 0; i_ < r_.size(); i_++) p.sink += (unsigned char)r_[i_]; });' % (ind, v))
            a('%s    p.op("array:raw-fill", e_, [&] { auto r_ = %s.raw(); r_.fill(typename decltype(r_)::value_type{}); });' % (ind, v))
            a('%s    p.op("array:raw-iterate", e_, [&] { auto r_ = %s.raw(); for(auto x_ : r_) p.sink += (unsigned char)x_; p.sink += r_.strlen_r(); });' % (ind, v))
            a('%s  }' % ind)
        elif node.kind == "composite":
            v = self.fresh("c")
            ctp = self.n.type_tag(node.tname) if node.tname else "%s::%s" % (tagpath, name)
            a('%s  typename std::decay<decltype(%s)>::type %s;' % (ind, get, v))
            a('%s  if(p.op("composite:view", e_, [&] { %s = %s; })) {' % (ind, v, get))
            a('%s    p.op("composite:size_bytes", e_, [&] { p.sink += ::sbepp::size_bytes(%s); });' % (ind, v))
            for m in node.members:
                if m.node.kind != "const":
                    self.node(out, m.node, v, m.name, ctp, ind + "    ", False)

            def count(nd):
                return 1 + (sum(count(m.node) for m in nd.members if m.node.kind != "const") if nd.kind == "composite" else 0)

            a('%s  } else { for(int k_ = 0; k_ < %d; k_++) in.num(); }' % (ind, 2 * (count(node) - 1)))
        a('%s}' % ind)

    def level(self, out, rlevel, view, tagpath, ind):
        a = out.append
        for f in rlevel.fields:
            if f.node.kind != "const":
                self.node(out, f.node, view, f.name, tagpath, ind, True)
        for g in rlevel.groups:
            gv, ev = self.fresh("g"), self.fresh("e")
            gtag = "%s::%s" % (tagpath, g.name)
            flat = g.flat
            a('%s{ long gs_ = (long)in.num(), gh_ = (long)in.num(), ge_ = (long)in.num(); auto cnt_ = in.num(); (void)gs_;' % ind)
            a('%s  typename std::decay<decltype(%s.%s())>::type %s; using N_ = typename decltype(%s)::size_type;' % (ind, view, g.name, gv, gv))
            a('%s  if(p.op("group:view", gh_, [&] { %s = %s.%s(); })) {' % (ind, gv, view, g.name))
            a('%s    p.op("group:view-by-tag", gh_, [&] { auto g2_ = ::sbepp::get_by_tag<%s>(%s); p.sink += (::drv::u64)::sbepp::addressof(g2_); });' % (ind, gtag, view))
            for wn, w in (("plain", "c_"), ("dont_move", "::sbepp::cursor_ops::dont_move(c_)"), ("init", "::sbepp::cursor_ops::init(c_)"), ("init_dont_move", "::sbepp::cursor_ops::init_dont_move(c_)")):
                a('%s    p.op("group:cursor-%s-view-use", gh_, [&] { ::sbepp::cursor<unsigned char> c_; c_.pointer() = p.base + gs_; auto g4_ = %s.%s(%s); p.sink += g4_.size(); });'
                  % (ind, wn, view, g.name, w))
            a('%s    p.op("group:cursor-skip", ge_, [&] { ::sbepp::cursor<unsigned char> c_; c_.pointer() = p.base + gs_; %s.%s(::sbepp::cursor_ops::skip(c_)); p.sink += (::drv::u64)c_.pointer(); });'
              % (ind, view, g.name))
            a('%s    p.op("group:size", gh_, [&] { p.sink += %s.size() + %s.empty(); });' % (ind, gv, gv))
            a('%s    p.op("group:header", gh_, [&] { auto h_ = ::sbepp::get_header(%s); p.sink += ::drv::bits_of(h_.blockLength()) + ::drv::bits_of(h_.numInGroup()); });' % (ind, gv))
            a('%s    p.op("group:resize-same", gh_, [&] { %s.resize((N_)cnt_); });' % (ind, gv))
            a('%s    p.op("group:size_bytes", ge_, [&] { p.sink += ::sbepp::size_bytes(%s); });' % (ind, gv))
            a('%s    p.op("group:begin-end", ge_, [&] { auto b_ = %s.begin(); auto e2_ = %s.end(); p.sink += (b_ == e2_); });' % (ind, gv, gv))
            a('%s    p.op("group:iterate", ge_, [&] { for(auto x_ : %s) p.sink += (::drv::u64)::sbepp::addressof(x_); });' % (ind, gv))
            a('%s    p.op("group:front", ge_, [&] { if(cnt_) p.sink += (::drv::u64)::sbepp::addressof(%s.front()); });' % (ind, gv))
            if flat:
                a('%s    p.op("group:back", ge_, [&] { if(cnt_) p.sink += (::drv::u64)::sbepp::addressof(%s.back()); });' % (ind, gv))
            a('%s    p.op("group:cursor_range", ge_, [&] { ::sbepp::cursor<unsigned char> c_; auto g3_ = %s.%s(::sbepp::cursor_ops::init(c_)); '
              'for(auto x_ : g3_.cursor_range(c_)) { p.sink += (::drv::u64)::sbepp::addressof(x_); ::sbepp::visit_children(x_, c_, nop_); } });' % (ind, view, g.name))
            a('%s    for(::drv::u64 i_ = 0; i_ < cnt_; i_++) {' % ind)
            a('%s      long es_ = (long)in.num(), eb_ = (long)in.num(), ee_ = (long)in.num(); (void)eb_; (void)ee_;' % ind)
            a('%s      typename decltype(%s)::value_type %s; bool ok_;' % (ind, gv, ev))
            if flat:
                a('%s      ok_ = p.op("group:index", ge_, [&] { %s = %s[(N_)i_]; });' % (ind, ev, gv))
                a('%s      p.op("group:iterator-arith", ge_, [&] { auto it_ = %s.begin(); it_ += (typename decltype(%s)::difference_type)i_; p.sink += (::drv::u64)::sbepp::addressof(*it_); ++it_; });'
                  % (ind, gv, gv))
            else:
                a('%s      ok_ = p.op("group:iterate-to", i_ ? es_ : gh_, [&] { auto it_ = %s.begin(); for(::drv::u64 k_ = 0; k_ < i_; k_++) ++it_; %s = *it_; });' % (ind, gv, ev))
            a('%s      if(ok_) {' % ind)
            a('%s        p.op("entry:size_bytes", ee_, [&] { p.sink += ::sbepp::size_bytes(%s); });' % (ind, ev))
            self.level(out, g.level, ev, gtag, ind + "        ")
            a('%s      } else { skip_level_tokens_%s(in); }' % (ind, self.skipper(g.level)))
            a('%s    }' % ind)
            a('%s  } else { for(::drv::u64 i_ = 0; i_ < cnt_; i_++) { in.num(); in.num(); in.num(); skip_level_tokens_%s(in); } }' % (ind, self.skipper(g.level)))
            a('%s}' % ind)
        for d in rlevel.data:
            dv = self.fresh("d")
            a('%s{ long ds_ = (long)in.num(), dp_ = (long)in.num(), de_ = (long)in.num();' % ind)
            a('%s  typename std::decay<decltype(%s.%s())>::type %s; using L_ = typename decltype(%s)::size_type; using E_ = typename decltype(%s)::value_type;' % (ind, view, d.name, dv, dv, dv))
            a('%s  if(p.op("data:view", ds_, [&] { %s = %s.%s(); })) {' % (ind, dv, view, d.name))
            for wn, w in (("plain", "c_"), ("dont_move", "::sbepp::cursor_ops::dont_move(c_)"), ("init", "::sbepp::cursor_ops::init(c_)"), ("init_dont_move", "::sbepp::cursor_ops::init_dont_move(c_)")):
                a('%s    p.op("data:cursor-%s-view-use", de_, [&] { ::sbepp::cursor<unsigned char> c_; c_.pointer() = p.base + ds_; auto d4_ = %s.%s(%s); for(auto x_ : d4_) p.sink += (unsigned char)x_; });'
                  % (ind, wn, view, d.name, w))
            a('%s    p.op("data:cursor-skip", de_, [&] { ::sbepp::cursor<unsigned char> c_; c_.pointer() = p.base + ds_; %s.%s(::sbepp::cursor_ops::skip(c_)); p.sink += (::drv::u64)c_.pointer(); });'
              % (ind, view, d.name))
            a('%s    p.op("data:size", dp_, [&] { p.sink += %s.size() + %s.empty(); });' % (ind, dv, dv))
            a('%s    p.op("data:size_bytes", dp_, [&] { p.sink += ::sbepp::size_bytes(%s); });' % (ind, dv))
            a('%s    p.op("data:iterate", de_, [&] { for(auto x_ : %s) p.sink += (unsigned char)x_; });' % (ind, dv))
            a('%s    p.op("data:index", de_, [&] { for(L_ i_ = 0; i_ < %s.size(); i_++) p.sink += (unsigned char)%s[i_]; });' % (ind, dv, dv))
            a('%s    p.op("data:front-back", de_, [&] { if(!%s.empty()) p.sink += (unsigned char)%s.front() + (unsigned char)%s.back(); });' % (ind, dv, dv, dv))
            a('%s    p.op("data:data-ptr", de_, [&] { p.sink += (::drv::u64)%s.data(); });' % (ind, dv))
            a('%s    p.op("data:resize-same", de_, [&] { %s.resize(%s.size()); });' % (ind, dv, dv))
            a('%s    p.op("data:assign_range-same", de_, [&] { std::vector<E_> c_(%s.begin(), %s.end()); %s.assign_range(c_); });' % (ind, dv, dv, dv))
            a('%s    p.op("data:raw-index", de_, [&] { auto r_ = %s.raw(); for(typename decltype(r_)::size_type i_ = 0; i_ < r_.size(); i_++) p.sink += (unsigned char)r_[i_]; });' % (ind, dv))
            a('%s    p.op("data:assign-same", de_, [&] { std::vector<E_> c_(%s.begin(), %s.end()); %s.assign(c_.begin(), c_.end()); });' % (ind, dv, dv, dv))
            a('%s    p.op("data:erase-insert-same", de_, [&] { if(!%s.empty()) { E_ x_ = %s.back(); %s.pop_back(); %s.push_back(x_); E_ y_ = %s.front(); %s.erase(%s.begin()); %s.insert(%s.begin(), y_); } });'
              % (ind, dv, dv, dv, dv, dv, dv, dv, dv, dv))
            a('%s  }' % ind)
            a('%s}' % ind)

    # token skippers for sub-trees whose parent view could not be obtained
    def skipper(self, rlevel):
        key = id(rlevel)
        if key in self._skippers:
            return self._skippers[key]
        self._skn += 1
        name = "s%d" % self._skn
        self._skippers[key] = name
        body = ['static void skip_level_tokens_%s(::drv::In& in)\n{' % name]

        def node(n, top=False):
            body.append('  in.num(); in.num();' + (' in.num();' if top else ''))
            if n.kind == "composite":
                for m in n.members:
                    if m.node.kind != "const":
                        node(m.node)

        for f in rlevel.fields:
            if f.node.kind != "const":
                node(f.node, True)
        for g in rlevel.groups:
            sub = self.skipper(g.level)
            body.append('  { in.num(); in.num(); in.num(); auto c_ = in.num(); for(::drv::u64 i_ = 0; i_ < c_; i_++) { in.num(); in.num(); in.num(); skip_level_tokens_%s(in); } }' % sub)
        for d in rlevel.data:
            body.append('  in.num(); in.num(); in.num();')
        body.append('}')
        self._skip_src.append("\n".join(body))
        return name

    def fn(self, rmsg):
        out = []
        a = out.append
        self._skippers, self._skip_src = {}, []
        body = []
        self.level(body, rmsg.level, "m", self.n.msg_tag(rmsg), "    ")
        out += self._skip_src
        a('static void probe_%s(unsigned char* p_, std::size_t n_, ::drv::In& in, ::px::P& p)\n{' % rmsg.name)
        a('  %s m{p_, n_}; nop_visitor nop_;' % self.n.msg_class(rmsg, "unsigned char"))
        a('  long hs_ = (long)in.num(), end_ = (long)in.num();')
        a('  p.op("message:header", hs_, [&] { auto h_ = ::sbepp::get_header(m); p.sink += ::drv::bits_of(h_.blockLength()) + ::drv::bits_of(h_.templateId()); });')
        a('  p.op("message:fill_header", hs_, [&] { ::sbepp::fill_message_header(m); });')
        a('  p.op("message:size_bytes", end_, [&] { p.sink += ::sbepp::size_bytes(m); });')
        a('  p.op("message:visit", end_, [&] { ::sbepp::visit(m, nop_); });')
        a('  p.op("message:cursor-traversal-size", end_, [&] { auto c_ = ::sbepp::init_cursor(m); ::sbepp::visit_children(m, c_, nop_); p.sink += ::sbepp::size_bytes(m, c_); });')
        a('  p.op("message:size_bytes_checked", end_, [&] { p.sink += ::sbepp::size_bytes_checked(m, n_).size; });')
        a('  {')
        out += body
        a('  }')
        a('}')
        return "\n".join(out)


NOP = r'''
struct nop_visitor
{
    template<typename T, typename C, typename Tag> void on_message(T m, C& c, Tag) { ::sbepp::visit_children(m, c, *this); }
    template<typename T, typename C, typename Tag> bool on_group(T g, C& c, Tag) { ::sbepp::visit_children(g, c, *this); return false; }
    template<typename T, typename C> bool on_entry(T e, C& c) { ::sbepp::visit_children(e, c, *this); return false; }
    template<typename T, typename Tag> bool on_data(T, Tag) { return false; }
    template<typename T, typename Tag> bool on_field(T, Tag) { return false; }
};
'''

MAIN = r'''
int main()
{
    std::ios::sync_with_stdio(false);
    static vh::guarded_buffer gb(1 << 16);
    std::string line;
    long cases = 0;
    while(std::getline(std::cin, line))
    {
        if(line.empty())
            continue;
        std::istringstream hs(line);
        std::string kind, id, hex;
        int mi, converse;
        std::size_t n;
        hs >> kind >> id >> mi >> n >> converse >> hex;
        std::string rest;
        std::getline(hs, rest);
        drv::In in(rest);
        auto img = drv::unhex(hex == "-" ? std::string() : hex);
        // the buffer holds exactly the first n bytes of the image; the view is (p, n)
        gb.fill(0xCD);
        unsigned char* p = gb.at(n);
        std::memcpy(p, img.data(), n < img.size() ? n : img.size());
        px::P pr;
        pr.base = p;
        pr.n = (long)n;
        pr.converse = converse != 0;
        cases++;
        run_probe(mi, p, n, in, pr);
        if(in.more())
            std::cout << "FAIL " << id << " HARNESS extent tokens not consumed\n";
        else if(pr.fails.empty())
            std::cout << "OK " << id << " " << pr.ops << " " << pr.ok << " " << pr.handler << " " << pr.timeouts << " " << pr.below << "\n";
        else
        {
            std::cout << "FAIL " << id << " PROBE";
            for(auto& kv : pr.fails)
                std::cout << " ## " << kv.first << " => " << kv.second;
            std::cout << "\n";
        }
    }
    std::cout << "DONE " << cases << "\n";
}
'''


def driver_source(schema, rmsgs, top_header):
    em = ProbeEmitter(schema)
    out = ['#include <%s>' % top_header, '#include "px.hpp"', '#include <sstream>', 'VH_DEFINE_ASSERT_HANDLER', NOP]
    for rm in rmsgs:
        out.append(em.fn(rm))
    out.append('static void run_probe(int mi, unsigned char* p, std::size_t n, ::drv::In& in, ::px::P& pr)\n{')
    for i, rm in enumerate(rmsgs):
        out.append('  if(mi == %d) return probe_%s(p, n, in, pr);' % (i, rm.name))
    out.append('  std::exit(72);\n}')
    out.append(MAIN)
    return "\n".join(out)


# ---------------------------------------------------------------- model side

def extent_tokens(rmsg, placed):
    t = ["%x" % rmsg.header.size, "%x" % placed.end]

    def node(n, off, req=None):
        t.extend(["%x" % off, "%x" % (off + n.size)])
        if req is not None:
            t.append("%x" % req)
        if n.kind == "composite":
            for m in n.members:
                if m.node.kind != "const":
                    node(m.node, off + m.offset)

    def level(pl):
        prev_end = pl.block_start
        for pf in pl.fields:
            node(pf.member.node, pf.off, prev_end)
            prev_end = pf.off + pf.member.node.size
        for pg in pl.groups:
            t.extend(["%x" % pg.start, "%x" % (pg.start + pg.hdr), "%x" % pg.end, "%x" % pg.n])
            for pe in pg.entries:
                t.extend(["%x" % pe.start, "%x" % pe.block_end, "%x" % pe.end])
                level(pe)
        for pd in pl.data:
            t.extend(["%x" % pd.start, "%x" % (pd.start + pd.rdata.len_size), "%x" % pd.end])

    level(placed)
    return " ".join(t)
