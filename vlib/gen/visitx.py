"""C19 generator: tag -> path string overloads for every tag of the schema, visit entry points per message, and the
model's expected event log (blocks) for a placed instance."""
from ..model import ir
from ..model.ir import psize
from . import walk


def _hex(v, size):
    return "%0*x" % (size * 2, v & ((1 << (8 * size)) - 1))


class Tags:
    """enumerates (c++ tag type, path string) for every entity"""

    def __init__(self, schema, resolver):
        self.s, self.r = schema, resolver
        self.ns = "::" + schema.package + "::schema"
        self.out = []

    def add(self, path):
        self.out.append((self.ns + "::" + path, path))

    def type_members(self, t, path):
        if isinstance(t, ir.Enum):
            for v in t.values:
                self.add(path + "::" + v[0])
        elif isinstance(t, ir.SetT):
            for c in t.choices:
                self.add(path + "::" + c[0])
        elif isinstance(t, ir.Comp):
            for m in t.members:
                self.add(path + "::" + m.name)
                self.type_members(m, path + "::" + m.name)

    def level(self, lv, path):
        for f in lv.fields:
            self.add(path + "::" + f.name)
        for g in lv.groups:
            self.add(path + "::" + g.name)
            self.level(g, path + "::" + g.name)
        for d in lv.data:
            self.add(path + "::" + d.name)

    def all(self):
        for t in self.s.types:
            self.add("types::" + t.name)
            self.type_members(t, "types::" + t.name)
        for m in self.s.msgs:
            self.add("messages::" + m.name)
            self.level(m, "messages::" + m.name)
        return self.out


def driver_source(schema, rmsgs, top_header):
    from ..model import layout
    n = walk.Names(schema)
    out = ['#include <%s>' % top_header, '#include <string>']
    for cxxtag, path in Tags(schema, None).all():
        out.append('inline std::string tagname(%s) { return "%s"; }' % (cxxtag, path))
    out += ['#include "rec.hpp"', '#include <sstream>', 'VH_DEFINE_ASSERT_HANDLER', '']
    for rm in rmsgs:
        cls = n.msg_class(rm, "const unsigned char")
        out.append('static long visit_%s(const unsigned char* p_, std::size_t n_, int sel, int how, ::rec::Rec& r)\n{' % rm.name)
        out.append('  %s m{p_, n_}; r.base = p_;' % cls)
        out.append('  if(sel == 0) { if(how == 0) { auto c = ::sbepp::init_cursor(m); ::sbepp::visit(m, c, r); return (long)((const unsigned char*)c.pointer() - p_); }')
        out.append('                 else { ::sbepp::visit(m, r); return -2; } }')
        for gi, g in enumerate(rm.level.groups):
            out.append('  if(sel == %d) { auto g = m.%s(); auto c = ::sbepp::init_cursor(g); ::sbepp::visit_children(g, c, r); return (long)((const unsigned char*)c.pointer() - p_); }'
                       % (gi + 1, g.name))
        out.append('  std::exit(72);\n}')
    out.append('static long run_visit(int mi, const unsigned char* p, std::size_t n, int sel, int how, ::rec::Rec& r)\n{')
    for i, rm in enumerate(rmsgs):
        out.append('  if(mi == %d) return visit_%s(p, n, sel, how, r);' % (i, rm.name))
    out.append('  std::exit(72);\n}')
    out.append(MAIN)
    return "\n".join(out)


MAIN = r'''
int main()
{
    std::ios::sync_with_stdio(false);
    static vh::guarded_buffer gb(1 << 16);
    std::string line;
    long cases = 0, n_timeouts = 0, n_fails = 0;
    while(std::getline(std::cin, line))
    {
        if(line.empty())
            continue;
        std::istringstream hs(line);
        std::string kind, id, hex;
        int mi, sel, how;
        long want_cursor;
        std::size_t nlines;
        hs >> kind >> id >> mi >> sel >> how >> hex >> want_cursor >> nlines;
        std::string want;
        for(std::size_t i = 0; i < nlines; i++)
        {
            std::string l;
            std::getline(std::cin, l);
            want += l;
            want += '\n';
        }
        cases++;
        if(n_timeouts >= 12 || n_fails >= 400)
        {
            // a broken tree can turn every case into a CPU-budget timeout: report the rest as NOT-RUN instead of spending hours
            std::cout << "FAIL " << id << " NOT-RUN (too many failures in this driver process)\n";
            continue;
        }
        auto img = drv::unhex(hex == "-" ? std::string() : hex);
        gb.fill(0xCD);
        unsigned char* p = gb.at(img.size());
        std::memcpy(p, img.data(), img.size());
        std::string failure;
        long total_blocks = 0, runs = 0;
        // complete visit
        {
            rec::Rec r;
            volatile long cur = -3;
            gb.readonly(true); // visiting never writes (C11): the image is mapped read-only for the complete visit
            auto out = vh::guarded([&] { cur = run_visit(mi, p, img.size(), sel, how, r); }, 5000);
            gb.readonly(false);
            runs++;
            total_blocks = r.blocks;
            if(out.kind != vh::OK)
                failure = std::string("OUTCOME ") + (out.kind == vh::HANDLER ? "HANDLER " : out.kind == vh::FAULT ? "FAULT " : "TIMEOUT ") + (out.expr ? out.expr : "");
            else if(r.log != want)
                failure = "LOG-MISMATCH complete visit\n--- got\n" + r.log + "--- want\n" + want + "--- end";
            else if(how == 0 && (long)cur != want_cursor)
                failure = "CURSOR-AFTER-VISIT got " + std::to_string((long)cur) + " want " + std::to_string(want_cursor);
        }
        // stop at the k-th callback, for every k
        for(long k = 1; failure.empty() && k <= total_blocks; k++)
        {
            rec::Rec r;
            r.stop_at = k;
            auto out = vh::guarded([&] { run_visit(mi, p, img.size(), sel, how, r); }, 5000);
            runs++;
            std::string w = rec::prefix_blocks(want, k);
            if(out.kind != vh::OK)
                failure = std::string("OUTCOME stop_at=") + std::to_string(k) + (out.kind == vh::HANDLER ? " HANDLER " : out.kind == vh::FAULT ? " FAULT " : " TIMEOUT ") + (out.expr ? out.expr : "");
            else if(r.log != w)
                failure = "STOP-MISMATCH stop_at=" + std::to_string(k) + "\n--- got\n" + r.log + "--- want\n" + w + "--- end";
        }
        if(failure.empty() && std::memcmp(p, img.data(), img.size()) != 0)
            failure = "VISIT-WROTE";
        if(failure.empty())
            std::cout << "OK " << id << " " << runs << " " << total_blocks << "\n";
        else
        {
            n_fails++;
            n_timeouts += failure.find("TIMEOUT") != std::string::npos;
            std::cout << "FAIL " << id << " " << failure << "\n";
        }
    }
    std::cout << "DONE " << cases << "\n";
}
'''


# ================================================================== model side

class VisitExpect:
    def __init__(self, schema, rmsg, resolver):
        self.s, self.m, self.r = schema, rmsg, resolver

    # ---- value tags
    def enum_value_tag(self, node, tagpath, bits):
        """node.src is the ir.Enum (public -> types::Name, inline -> tagpath)"""
        e = node.src
        base = ("types::" + node.tname) if node.tname else tagpath
        size = node.size
        for v in e.values:
            val = self.r.parse_value(str(v[1]), node.prim)
            if (val & ((1 << (8 * size)) - 1)) == bits:
                return base + "::" + v[0]
        return "unknown"

    def member_block(self, lines, kind, node, tagpath, value, off):
        """one callback block for a member whose own tag path is `tagpath`"""
        if node.kind == "scalar":
            lines.append("B %s %s =%s" % (kind, tagpath, _hex(value, node.size)))
            if node.rep == "enum":
                lines.append("  enum_value %s" % self.enum_value_tag(node, tagpath, value))
            elif node.rep == "set":
                base = ("types::" + node.tname) if node.tname else tagpath
                for c in node.src.choices:
                    lines.append("  choice %s::%s %d" % (base, c[0], (value >> int(c[1])) & 1))
        elif node.kind == "array":
            lines.append("B %s %s @%d [%s]" % (kind, tagpath, off, bytes(value).hex()))
        elif node.kind == "composite":
            lines.append("B %s %s @%d" % (kind, tagpath, off))
            cbase = ("types::" + node.tname) if node.tname else tagpath
            for m in node.members:
                if m.node.kind == "const":
                    continue
                ck = {"scalar": {"enum": "enum", "set": "set"}.get(getattr(m.node, "rep", ""), "type"), "array": "type",
                      "composite": "composite"}[m.node.kind]
                self.member_block(lines, ck, m.node, cbase + "::" + m.name, value[m.name], off + m.offset)

    def level(self, lines, placed, inst, tagpath):
        rl = placed.rlevel
        pmap = {pf.member.name: pf for pf in placed.fields}
        for f in rl.fields:
            if f.node.kind == "const":
                continue
            self.member_block(lines, "field", f.node, tagpath + "::" + f.name, inst["f"][f.name], pmap[f.name].off)
        for pg in placed.groups:
            gt = tagpath + "::" + pg.rgroup.name
            lines.append("B group %s @%d n=%d" % (gt, pg.start, pg.n))
            self.entries(lines, pg, inst["g"].get(pg.rgroup.name, []), gt)
        for pd in placed.data:
            lines.append("B data %s::%s @%d len=%d [%s]" % (tagpath, pd.rdata.name, pd.start, len(pd.payload), pd.payload.hex()))

    def entries(self, lines, pg, insts, gt):
        for pe, e in zip(pg.entries, insts):
            lines.append("B entry @%d" % pe.start)
            self.level(lines, pe, e, gt)

    def message_log(self, placed, inst):
        lines = ["message messages::%s @0" % self.m.name]
        self.level(lines, placed, inst, "messages::" + self.m.name)
        return "\n".join(lines) + "\n"

    def group_log(self, placed, inst, gi):
        pg = placed.groups[gi]
        lines = []
        self.entries(lines, pg, inst["g"].get(pg.rgroup.name, []), "messages::%s::%s" % (self.m.name, pg.rgroup.name))
        return ("\n".join(lines) + "\n") if lines else "", pg.end
