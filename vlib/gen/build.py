"""schema IR -> XML -> sbeppc (from the working tree) -> generated headers; driver TU assembly / compile / run"""
import os
import shutil

from .. import cxx, repo
from ..model import ir, layout
from . import walk


class SchemaBuild:
    def __init__(self, schema, root, variant="dbg"):
        self.schema = schema
        self.root = root                      # directory for this schema
        self.xml = os.path.join(root, schema.package + ".xml")
        self.inc = os.path.join(root, "gen")
        self.variant = variant
        self.rc = None
        self.log = ""

    def generate(self, extra=()):
        os.makedirs(self.root, exist_ok=True)
        if os.path.isdir(self.inc):
            shutil.rmtree(self.inc)
        os.makedirs(self.inc)
        with open(self.xml, "w") as fh:
            fh.write(ir.to_xml(self.schema))
        self.rc, self.log = repo.run_sbeppc(self.xml, self.inc, variant=self.variant, extra=extra)
        return self.rc == 0

    def top_header(self):
        return "%s/%s.hpp" % (self.schema.package, self.schema.package)


MAIN_TMPL = r'''
int main()
{
    std::ios::sync_with_stdio(false);
    static vh::guarded_buffer gb(1 << 16);
    std::string line;
    long cases = 0, timeouts = 0, fails = 0;
    // a broken tree can turn every case into a CPU-budget timeout: after 12 timeouts (or 400 failures) in this process the
    // remaining cases are reported as NOT-RUN instead of being executed, so that the run ends in minutes, not hours
    auto give_up = [&] { return timeouts >= 12 || fails >= 400; };
    while(std::getline(std::cin, line))
    {
        if(line.empty())
            continue;
        std::istringstream hs(line);
        std::string kind, id, mode;
        int mi;
        hs >> kind >> id >> mi >> mode;
        if(kind == "D")
        {
            std::string hex, flags;
            std::size_t nlines;
            std::string choices, styles;
            hs >> hex >> nlines >> flags >> choices >> styles;
            std::string want;
            for(std::size_t i = 0; i < nlines; i++)
            {
                std::string l;
                std::getline(std::cin, l);
                want += l;
                want += '\n';
            }
            if(give_up())
            {
                std::cout << "FAIL " << id << " NOT-RUN (too many failures in this driver process)\n";
                cases++;
                continue;
            }
            auto img = drv::unhex(hex == "-" ? std::string() : hex);
            gb.fill(0xCD);
            unsigned char* p = gb.at(img.size());
            std::memcpy(p, img.data(), img.size());
            drv::Out o;
            o.show_cur = flags.find('c') != std::string::npos;
            o.show_sz = flags.find('s') != std::string::npos;
            if(!choices.empty())
                o.choices = choices;
            if(!styles.empty())
                o.styles = styles;
            const bool ro = flags.find('r') != std::string::npos; // C11: the image is mapped read-only, any write faults
            if(ro)
                gb.readonly(true);
            auto out = vh::guarded([&] { run_dump(mi, mode, p, img.size(), o); }, 5000);
            if(ro)
                gb.readonly(false);
            cases++;
            timeouts += out.kind == vh::TIMEOUT;
            fails += (out.kind != vh::OK || o.s != want);
            if(out.kind != vh::OK)
                std::cout << "FAIL " << id << " OUTCOME " << (out.kind == vh::HANDLER ? "HANDLER " : out.kind == vh::FAULT ? "FAULT " : "TIMEOUT ")
                          << (out.expr ? out.expr : "") << " partial=" << o.s.size() << "\n";
            else if(o.s != want)
            {
                std::cout << "FAIL " << id << " DUMP-MISMATCH\n--- got\n" << o.s << "--- want\n" << want << "--- end\n";
            }
            else if(std::memcmp(p, img.data(), img.size()) != 0)
                std::cout << "FAIL " << id << " READ-WROTE\n";
            else
                std::cout << "OK " << id << "\n";
        }
        else if(kind == "E")
        {
            std::size_t msgsize;
            std::string bg;
            hs >> msgsize >> bg;
            std::string rest;
            std::getline(hs, rest);
            if(give_up())
            {
                std::cout << "FAIL " << id << " NOT-RUN (too many failures in this driver process)\n";
                cases++;
                continue;
            }
            drv::In in(rest);
            auto b = drv::unhex(bg);
            const std::size_t cap = b.size();
            gb.fill(0xCD);
            unsigned char* p = gb.at(cap);
            std::memcpy(p, b.data(), cap);
            drv::Chk k;
            k.real = p;
            k.want = b;
            k.cap = cap;
            // the view covers the whole capacity: the trailing bytes are the canary the shadow buffer watches
            auto out = vh::guarded([&] { run_enc(mi, mode, p, cap, in, k); }, 5000);
            cases++;
            timeouts += out.kind == vh::TIMEOUT;
            fails += (out.kind != vh::OK || !k.first_fail.empty());
            if(out.kind != vh::OK)
                std::cout << "FAIL " << id << " OUTCOME " << (out.kind == vh::HANDLER ? "HANDLER " : out.kind == vh::FAULT ? "FAULT " : "TIMEOUT ")
                          << (out.expr ? out.expr : "") << " after_points=" << k.points << "\n";
            else if(!k.first_fail.empty())
                std::cout << "FAIL " << id << " ENC-MISMATCH " << k.first_fail << "\n";
            else if(in.more())
                std::cout << "FAIL " << id << " HARNESS script not consumed\n";
            else
                std::cout << "OK " << id << " " << k.points << "\n";
        }
    }
    std::cout << "DONE " << cases << "\n";
    return 0;
}
'''


def driver_source(schema, rmsgs, top_header, modes=walk.MODES, want=("dump", "enc")):
    """one TU covering the given messages; message index = position in rmsgs"""
    em = walk.Emitter(schema, rmsgs)
    out = ['#include <%s>' % top_header, '#include "drv.hpp"', '#include <sstream>', 'VH_DEFINE_ASSERT_HANDLER', '']
    enc_modes = tuple(modes) + (("tagc",) if "tag" in modes and "cur" in modes else ())
    for rm in rmsgs:
        for mode in modes:
            if "dump" in want:
                out.append(em.dump_fn(rm, mode))
        for mode in enc_modes:
            if "enc" in want:
                out.append(em.enc_fn(rm, mode))
    out.append('static void run_dump(int mi, const std::string& mode, const unsigned char* p, std::size_t n, ::drv::Out& o)\n{')
    if "dump" in want:
        for i, rm in enumerate(rmsgs):
            for mode in modes:
                out.append('  if(mi == %d && mode == "%s") return dump_%s_%s(p, n, o);' % (i, mode, mode, rm.name))
    out.append('  std::fprintf(stderr, "HARNESS-ERROR: no dump %d %s\\n", mi, mode.c_str()); std::exit(72);\n}')
    out.append('static void run_enc(int mi, const std::string& mode, unsigned char* p, std::size_t n, ::drv::In& in, ::drv::Chk& k)\n{')
    if "enc" in want:
        for i, rm in enumerate(rmsgs):
            for mode in enc_modes:
                out.append('  if(mi == %d && mode == "%s") return enc_%s_%s(p, n, in, k);' % (i, mode, mode, rm.name))
    out.append('  std::fprintf(stderr, "HARNESS-ERROR: no enc %d %s\\n", mi, mode.c_str()); std::exit(72);\n}')
    out.append(MAIN_TMPL)
    return "\n".join(out)


def parse_results(text):
    """-> (ok_ids:set, fails: {id: detail}, done: bool)"""
    ok, fails = {}, {}
    done = False
    lines = text.splitlines()
    i = 0
    while i < len(lines):
        l = lines[i]
        if l.startswith("OK "):
            w = l.split()
            ok[w[1]] = w[2:]
        elif l.startswith("FAIL "):
            parts = l.split(" ", 2)
            detail = parts[2] if len(parts) > 2 else ""
            if detail.startswith("DUMP-MISMATCH"):
                j = i + 1
                blk = []
                while j < len(lines) and lines[j] != "--- end":
                    blk.append(lines[j])
                    j += 1
                detail += "\n" + "\n".join(blk)
                i = j
            fails[parts[1]] = detail
        elif l.startswith("DONE "):
            done = True
        i += 1
    return ok, fails, done
