"""C18 generator: for every schema entity the expected trait record (model side, from the IR and SBE derivation rules)
and a C++ TU that (a) static_asserts every type-valued trait / tag list / tag-kind predicate and (b) prints every
value-valued trait as `path|trait=value` lines, which are diffed against the model."""
from ..model import ir, layout
from ..model.ir import PRIMS, psize

PRES = {"required": 0, "optional": 1, "constant": 2}
CXX_PRIM = {k: ("::" + v[4] if v[4].startswith("std") else v[4]) for k, v in PRIMS.items()}
KINDS = ["type", "enum", "enum_value", "set", "set_choice", "composite", "field", "group", "data", "message", "schema"]


def cstr(s):
    return '"' + s.replace("\\", "\\\\").replace('"', '\\"') + '"'


class TraitModel:
    """walks the IR and yields entities: (kind, cxx_tag, path, {trait: expected}, [static facts])"""

    def __init__(self, schema):
        self.s = schema
        self.r = layout.Resolver(schema)
        self.ns = "::" + schema.package
        self.ents = []      # (kind, cxxtag, path, values dict, statics list of C++ bool expressions)

    def tag(self, path):
        return "%s::schema::%s" % (self.ns, path)

    def common(self, o, vals, desc=True):
        if desc:
            vals["description"] = o.desc or ""
        vals["since_version"] = int(o.since or 0)
        if o.deprecated is not None:
            vals["deprecated"] = int(o.deprecated)

    # ---- types
    def type_ent(self, t, path, inline_offset):
        tag = self.tag(path)
        if isinstance(t, ir.T):
            node = self.r.node_of(t)
            pres = t.presence or "required"
            length = len(node.value) if (pres == "constant" and isinstance(node.value, bytes)) else (1 if t.length is None else int(t.length))
            vals = {"name": t.name, "presence": PRES[pres], "length": length, "semantic_type": t.sem or ""}
            self.common(t, vals)
            st = ["std::is_same<::sbepp::type_traits<%s>::primitive_type, %s>::value" % (tag, CXX_PRIM[t.prim])]
            if length == 1 and pres != "constant":
                mn, mx, nl = default_range(t.prim)
                vals["min_value"] = parse_bits(t.mn, t.prim) if t.mn is not None else mn
                vals["max_value"] = parse_bits(t.mx, t.prim) if t.mx is not None else mx
                if pres == "optional":
                    vals["null_value"] = parse_bits(t.nl, t.prim) if t.nl is not None else nl
                st.append("std::is_same<::sbepp::traits_tag_t<::sbepp::type_traits<%s>::value_type>, %s>::value" % (tag, tag))
            if inline_offset is not None and pres != "constant":
                vals["offset"] = inline_offset
            if t.char_enc is not None:
                vals["character_encoding"] = t.char_enc
            self.ents.append(("type", tag, path, vals, st))
        elif isinstance(t, ir.Enum):
            p = self.r.enc_prim(t.enc)
            vals = {"name": t.name}
            self.common(t, vals)
            if inline_offset is not None:
                vals["offset"] = inline_offset
            st = ["std::is_same<::sbepp::enum_traits<%s>::encoding_type, %s>::value" % (tag, CXX_PRIM[p]),
                  "std::is_same<::sbepp::traits_tag_t<::sbepp::enum_traits<%s>::value_type>, %s>::value" % (tag, tag),
                  "std::is_same<::sbepp::enum_traits<%s>::value_tags, ::sbepp::type_list<%s>>::value"
                  % (tag, ", ".join(self.tag(path + "::" + v[0]) for v in t.values))]
            self.ents.append(("enum", tag, path, vals, st))
            for v in t.values:
                extra = v[2] if len(v) > 2 else {}
                vv = {"name": v[0], "description": extra.get("description", ""), "since_version": int(extra.get("sinceVersion", 0)),
                      "value": layout.Resolver.parse_value(str(v[1]), p) & ((1 << (8 * psize(p))) - 1)}
                if "deprecated" in extra:
                    vv["deprecated"] = int(extra["deprecated"])
                self.ents.append(("enum_value", self.tag(path + "::" + v[0]), path + "::" + v[0], vv, []))
        elif isinstance(t, ir.SetT):
            p = self.r.enc_prim(t.enc)
            vals = {"name": t.name}
            self.common(t, vals)
            if inline_offset is not None:
                vals["offset"] = inline_offset
            st = ["std::is_same<::sbepp::set_traits<%s>::encoding_type, %s>::value" % (tag, CXX_PRIM[p]),
                  "std::is_same<::sbepp::traits_tag_t<::sbepp::set_traits<%s>::value_type>, %s>::value" % (tag, tag),
                  "std::is_same<::sbepp::set_traits<%s>::choice_tags, ::sbepp::type_list<%s>>::value"
                  % (tag, ", ".join(self.tag(path + "::" + c[0]) for c in t.choices))]
            self.ents.append(("set", tag, path, vals, st))
            for c in t.choices:
                extra = c[2] if len(c) > 2 else {}
                cv = {"name": c[0], "description": extra.get("description", ""), "since_version": int(extra.get("sinceVersion", 0)),
                      "index": int(c[1])}
                if "deprecated" in extra:
                    cv["deprecated"] = int(extra["deprecated"])
                self.ents.append(("set_choice", self.tag(path + "::" + c[0]), path + "::" + c[0], cv, []))
        elif isinstance(t, ir.Comp):
            node = self.r.node_of(t)
            vals = {"name": t.name, "semantic_type": t.sem or "", "size_bytes": node.size}
            self.common(t, vals)
            if inline_offset is not None:
                vals["offset"] = inline_offset
            st = ["std::is_same<::sbepp::composite_traits<%s>::element_tags, ::sbepp::type_list<%s>>::value"
                  % (tag, ", ".join(self.tag(path + "::" + m.name) for m in t.members)),
                  "std::is_same<::sbepp::traits_tag_t<::sbepp::composite_traits<%s>::value_type<char>>, %s>::value" % (tag, tag)]
            self.ents.append(("composite", tag, path, vals, st))
            for m, rm in zip(t.members, node.members):
                if isinstance(m, ir.Ref):
                    continue    # no ref traits: the referred type's traits apply
                self.type_ent(m, path + "::" + m.name, rm.offset)

    # ---- levels
    def level(self, lv, rl, path):
        fts, gts, dts = [], [], []
        for f, rf in zip(lv.fields, rl.fields):
            fpath = path + "::" + f.name
            ftag = self.tag(fpath)
            fts.append(ftag)
            node = rf.node
            if node.kind == "const":
                pres = "constant"
            elif node.kind == "scalar" and node.rep in ("required", "optional"):
                pres = node.rep
            else:
                pres = "required"
            vals = {"name": f.name, "id": int(f.id), "presence": PRES[pres], "description": f.desc or "",
                    "since_version": int(f.since or 0)}
            if f.deprecated is not None:
                vals["deprecated"] = int(f.deprecated)
            if node.kind != "const":
                vals["offset"] = rf.offset
            st = []
            if f.type in PRIMS:
                if pres != "constant":
                    bt = "::sbepp::%s%s_t" % (f.type, "_opt" if pres == "optional" else "")
                    st.append("std::is_same<::sbepp::field_traits<%s>::value_type_tag, %s>::value" % (ftag, bt))
                    st.append("std::is_same<::sbepp::field_traits<%s>::value_type, %s>::value" % (ftag, bt))
            else:
                t = self.s.type_by_name(f.type)
                # value_type_tag is emitted for non-constant fields only (the documentation promises it for everything but
                # numeric constants; string / enum constants lack it -- noted in DESIGN.md, not demanded here)
                if pres != "constant":
                    st.append("std::is_same<::sbepp::field_traits<%s>::value_type_tag, %s>::value" % (ftag, self.tag("types::" + t.name)))
            self.ents.append(("field", ftag, fpath, vals, st))
        for g, rg in zip(lv.groups, rl.groups):
            gpath = path + "::" + g.name
            gtag = self.tag(gpath)
            gts.append(gtag)
            vals = {"name": g.name, "id": int(g.id), "description": g.desc or "", "block_length": rg.level.block_length,
                    "semantic_type": g.sem or "", "since_version": int(g.since or 0)}
            if g.deprecated is not None:
                vals["deprecated"] = int(g.deprecated)
            sub = self.level(g, rg.level, gpath)
            st = ["std::is_same<::sbepp::group_traits<%s>::dimension_type_tag, %s>::value" % (gtag, self.tag("types::" + self.s.type_by_name(g.dim or "groupSizeEncoding").name)),
                  "std::is_same<::sbepp::traits_tag_t<::sbepp::group_traits<%s>::value_type<char>>, %s>::value" % (gtag, gtag),
                  "std::is_same<::sbepp::traits_tag_t<::sbepp::group_traits<%s>::entry_type<char>>, %s>::value" % (gtag, gtag)] + sub
            self.ents.append(("group", gtag, gpath, vals, st))
        for d in lv.data:
            dpath = path + "::" + d.name
            dtag = self.tag(dpath)
            dts.append(dtag)
            vals = {"name": d.name, "id": int(d.id), "description": d.desc or "", "since_version": int(d.since or 0)}
            if d.deprecated is not None:
                vals["deprecated"] = int(d.deprecated)
            st = ["std::is_same<::sbepp::data_traits<%s>::length_type_tag, %s>::value" % (dtag, self.tag("types::" + self.s.type_by_name(d.type).name + "::length"))]
            self.ents.append(("data", dtag, dpath, vals, st))
        owner = "message" if path.count("::") == 1 else "group"
        me = self.tag(path)
        return ["std::is_same<::sbepp::%s_traits<%s>::field_tags, ::sbepp::type_list<%s>>::value" % (owner, me, ", ".join(fts)),
                "std::is_same<::sbepp::%s_traits<%s>::group_tags, ::sbepp::type_list<%s>>::value" % (owner, me, ", ".join(gts)),
                "std::is_same<::sbepp::%s_traits<%s>::data_tags, ::sbepp::type_list<%s>>::value" % (owner, me, ", ".join(dts))]

    def build(self):
        s = self.s
        stag = "%s::schema" % self.ns
        vals = {"package": getattr(s, "xml_package", None) or s.package, "id": int(s.id), "version": int(s.version), "semantic_version": s.sem_version or "",
                "byte_order": 1 if s.big else 0, "description": s.desc or ""}
        st = ["std::is_same<::sbepp::schema_traits<%s>::header_type_tag, %s>::value" % (stag, self.tag("types::" + s.type_by_name(s.header_name()).name)),
              "std::is_same<::sbepp::schema_traits<%s>::message_tags, ::sbepp::type_list<%s>>::value"
              % (stag, ", ".join(self.tag("messages::" + m.name) for m in s.msgs))]
        self.ents.append(("schema", stag, "schema", vals, st))
        for t in s.types:
            self.type_ent(t, "types::" + t.name, None)
        # the built-in types are their own tags (what value_type_tag of a field with a primitive type name leads to)
        for prim in PRIMS:
            for opt in (False, True):
                tag = "::sbepp::%s%s_t" % (prim, "_opt" if opt else "")
                mn, mx, nl = default_range(prim)
                vals = {"name": prim, "description": "", "presence": PRES["optional" if opt else "required"], "min_value": mn,
                        "max_value": mx, "length": 1, "semantic_type": "", "since_version": 0}
                if opt:
                    vals["null_value"] = nl
                st = ["std::is_same<::sbepp::type_traits<%s>::primitive_type, %s>::value" % (tag, CXX_PRIM[prim]),
                      "std::is_same<::sbepp::type_traits<%s>::value_type, %s>::value" % (tag, tag),
                      "std::is_same<::sbepp::traits_tag_t<%s>, %s>::value" % (tag, tag),
                      "std::is_same<%s::value_type, %s>::value" % (tag, CXX_PRIM[prim])]
                self.ents.append(("type", tag, "builtin::%s%s_t" % (prim, "_opt" if opt else ""), vals, st))
        rms = self.r.messages()
        for m, rm in zip(s.msgs, rms):
            path = "messages::" + m.name
            tag = self.tag(path)
            vals = {"name": m.name, "id": int(m.id), "description": m.desc or "", "block_length": rm.level.block_length,
                    "semantic_type": m.sem or "", "since_version": int(m.since or 0)}
            if m.deprecated is not None:
                vals["deprecated"] = int(m.deprecated)
            st = self.level(m, rm.level, path)
            st.append("std::is_same<::sbepp::traits_tag_t<::sbepp::message_traits<%s>::value_type<char>>, %s>::value" % (tag, tag))
            st.append("std::is_same<::sbepp::message_traits<%s>::schema_tag, %s>::value" % (tag, stag))
            self.ents.append(("message", tag, path, vals, st))
        return self.ents


def default_range(prim):
    size, _, signed, fp, _ = PRIMS[prim]
    if fp:
        if prim == "float":
            return 0x00800000, 0x7f7fffff, "nan"
        return 0x0010000000000000, 0x7fefffffffffffff, "nan"
    bits = 8 * size
    full = (1 << bits) - 1
    if prim == "char":
        return 0x20, 0x7e, 0
    if signed:
        return ((-(1 << (bits - 1)) + 1) & full), (1 << (bits - 1)) - 1, (1 << (bits - 1))
    return 0, full - 1, full


def parse_bits(txt, prim):
    import struct
    size, _, signed, fp, _ = PRIMS[prim]
    if fp:
        v = float(txt)
        return int.from_bytes(struct.pack("<f" if prim == "float" else "<d", v), "little")
    return int(txt) & ((1 << (8 * size)) - 1)


TRAIT_CLASS = {"type": "type_traits", "enum": "enum_traits", "enum_value": "enum_value_traits", "set": "set_traits",
               "set_choice": "set_choice_traits", "composite": "composite_traits", "field": "field_traits",
               "group": "group_traits", "data": "data_traits", "message": "message_traits", "schema": "schema_traits"}
STRING_TRAITS = {"name", "description", "semantic_type", "character_encoding", "package", "semantic_version"}
PRED = {"type": "is_type_tag", "enum": "is_enum_tag", "enum_value": "is_enum_value_tag", "set": "is_set_tag",
        "set_choice": "is_set_choice_tag", "composite": "is_composite_tag", "field": "is_field_tag", "group": "is_group_tag",
        "data": "is_data_tag", "message": "is_message_tag", "schema": "is_schema_tag"}


def source(schema, top_header):
    """-> (C++ text, expected output text, counts)"""
    ents = TraitModel(schema).build()
    out = ['#include <%s>' % top_header, '#include "drv.hpp"', '#include <cmath>', 'VH_DEFINE_ASSERT_HANDLER',
           'template<typename T> static void pv(const char* path, const char* trait, T v) { std::printf("%s|%s=%llu\\n", path, trait, (unsigned long long)drv::raw_bits(v)); }',
           'template<typename T> static void pnan(const char* path, const char* trait, T v) { std::printf("%s|%s=%s\\n", path, trait, (v != v) ? "nan" : "not-nan"); }',
           'static void ps(const char* path, const char* trait, const char* v) { std::printf("%s|%s=\\"%s\\"\\n", path, trait, v); }']
    exp = []
    nstatic = 0
    body = []
    for kind, tag, path, vals, statics in ents:
        tc = "::sbepp::%s<%s>" % (TRAIT_CLASS[kind], tag)
        for trait, want in vals.items():
            if trait in STRING_TRAITS:
                body.append('  ps(%s, "%s", %s::%s());' % (cstr(path), trait, tc, trait))
                exp.append('%s|%s="%s"' % (path, trait, want))
            elif want == "nan":
                body.append('  pnan(%s, "%s", %s::%s());' % (cstr(path), trait, tc, trait))
                exp.append('%s|%s=nan' % (path, trait))
            elif trait == "byte_order":
                body.append('  pv(%s, "%s", (int)(%s::%s() == ::sbepp::endian::big));' % (cstr(path), trait, tc, trait))
                exp.append('%s|%s=%d' % (path, trait, want))
            elif trait == "presence":
                body.append('  pv(%s, "%s", (int)%s::%s());' % (cstr(path), trait, tc, trait))
                exp.append('%s|%s=%d' % (path, trait, want))
            elif trait == "value":
                body.append('  pv(%s, "%s", ::sbepp::to_underlying(%s::%s()));' % (cstr(path), trait, tc, trait))
                exp.append('%s|%s=%d' % (path, trait, want))
            else:
                body.append('  pv(%s, "%s", %s::%s());' % (cstr(path), trait, tc, trait))
                exp.append('%s|%s=%d' % (path, trait, want))
        for e in statics:
            out.append('static_assert(%s, %s);' % (e, cstr(path + " static trait")))
            nstatic += 1
        # tag-kind predicates: exactly the entity's own kind
        for k2, pred in PRED.items():
            want = "true" if k2 == kind else "false"
            out.append('static_assert(::sbepp::%s<%s>::value == %s, %s);' % (pred, tag, want, cstr(path + " " + pred)))
            nstatic += 1
    out.append('int main()\n{')
    out += body
    out.append('  return 0;\n}')
    return "\n".join(out), "\n".join(exp) + "\n", {"entities": len(ents), "static_asserts": nstatic, "values": len(exp)}
