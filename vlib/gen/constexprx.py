"""C02 constant-evaluation part: images from the reference encoder embedded as constexpr arrays; every scalar getter
(message fields, composite members, group entry fields at any depth) static_asserted equal to the model's bit pattern."""
from ..model import codec


def source(schema, rmsgs, top_header, cases):
    """cases: list of (rmsg, inst, image bytes, placed). -> (text, number of static_asserts)"""
    ns = "::" + schema.package
    out = ['#include <%s>' % top_header, '#include "cexpr.hpp"', '']
    n = 0
    for k, (rm, inst, img, placed) in enumerate(cases):
        if not img:
            continue
        out.append('constexpr unsigned char img%d[] = {%s};' % (k, ",".join(str(b) for b in img)))
        mexpr = '%s::messages::%s<const unsigned char>{img%d, sizeof(img%d)}' % (ns, rm.name, k, k)

        def node(nd, expr, value, label):
            nonlocal n
            if nd.kind == "scalar":
                out.append('static_assert(::cexpr::bits(%s) == 0x%xull, "%s");' % (expr, value, label))
                n += 1
            elif nd.kind == "composite":
                for m in nd.members:
                    if m.node.kind == "scalar":
                        node(m.node, "%s.%s()" % (expr, m.name), value[m.name], label + "." + m.name)
                    elif m.node.kind == "composite":
                        node(m.node, "%s.%s()" % (expr, m.name), value[m.name], label + "." + m.name)

        def level(rl, vexpr, ins, label):
            for f in rl.fields:
                if f.node.kind in ("scalar", "composite"):
                    node(f.node, "%s.%s()" % (vexpr, f.name), ins["f"][f.name], label + "." + f.name)
            for g in rl.groups:
                for i, e in enumerate(ins["g"].get(g.name, [])):
                    level(g.level, "::cexpr::nth(%s.%s(), %d)" % (vexpr, g.name, i), e, "%s.%s[%d]" % (label, g.name, i))
                out.append('static_assert(%s.%s().size() == %d, "%s.%s size");' % (vexpr, g.name, len(ins["g"].get(g.name, [])), label, g.name))
                nonlocal_n()
            out.append('static_assert(::sbepp::size_bytes(%s) == %d, "%s size_bytes");' % (vexpr, 0, label)) if False else None

        def nonlocal_n():
            nonlocal n
            n += 1

        level(rm.level, mexpr, inst, "%s#%d" % (rm.name, k))
        out.append('static_assert(::sbepp::size_bytes(%s) == %d, "%s size_bytes");' % (mexpr, len(img), rm.name))
        n += 1
    out.append("int main() { return 0; }")
    return "\n".join(out), n
