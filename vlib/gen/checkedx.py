"""C06 generator + reference: size_bytes_checked on arbitrary (truncated / corrupted) buffers.

The driver places exactly n bytes in front of a PROT_NONE region and calls size_bytes_checked(view, n) for the message
(sel 0) or the k-th top-level group (sel k; the group view starts at the offset random access computes from the root
blockLength, the buffer still ends after n bytes).  The reference is a structural walk on Python ints."""
from ..model.ir import psize
from . import walk


def driver_source(schema, rmsgs, top_header):
    n = walk.Names(schema)
    out = ['#include <%s>' % top_header, '#include "drv.hpp"', '#include <sstream>', 'VH_DEFINE_ASSERT_HANDLER', '']
    for rm in rmsgs:
        out.append('static ::sbepp::size_bytes_checked_result sbc_%s(const unsigned char* p_, std::size_t n_, int sel, std::size_t goff)\n{' % rm.name)
        out.append('  if(sel == 0) { %s m{p_, n_}; return ::sbepp::size_bytes_checked(m, n_); }' % n.msg_class(rm, "const unsigned char"))
        for gi, g in enumerate(rm.level.groups):
            # the group view type, constructed directly at the given offset (no reads needed to get there)
            out.append('  if(sel == %d) { using G_ = decltype(std::declval<%s>().%s()); G_ g{p_ + goff, n_ - goff}; return ::sbepp::size_bytes_checked(g, n_ - goff); }'
                       % (gi + 1, n.msg_class(rm, "const unsigned char"), g.name))
        out.append('  std::exit(72);\n}')
    out.append('static ::sbepp::size_bytes_checked_result run_sbc(int mi, const unsigned char* p, std::size_t n, int sel, std::size_t goff)\n{')
    for i, rm in enumerate(rmsgs):
        out.append('  if(mi == %d) return sbc_%s(p, n, sel, goff);' % (i, rm.name))
    out.append('  std::exit(72);\n}')
    out.append(r'''
int main()
{
    std::ios::sync_with_stdio(false);
    static vh::guarded_buffer gb(1 << 16);
    std::string line;
    long cases = 0;
    while(std::getline(std::cin, line))
    {
        if(line.empty())
            continue;
        std::istringstream hs(line);
        std::string kind, id, hex;
        int mi, sel, want_valid;
        std::size_t goff;
        unsigned long long want_size;
        hs >> kind >> id >> mi >> sel >> goff >> want_valid >> want_size >> hex;
        auto img = drv::unhex(hex == "-" ? std::string() : hex);
        gb.fill(0xCD);
        unsigned char* p = gb.at(img.size());
        std::memcpy(p, img.data(), img.size());
        cases++;
        volatile int valid = -1;
        volatile unsigned long long size = 0;
        auto out = vh::guarded([&] { auto r = run_sbc(mi, p, img.size(), sel, goff); valid = r.valid; size = r.size; }, 100);
        if(out.kind != vh::OK)
        {
            std::cout << "FAIL " << id << " OUTCOME " << (out.kind == vh::HANDLER ? "HANDLER " : out.kind == vh::FAULT ? "FAULT " : "TIMEOUT ");
            if(out.kind == vh::FAULT)
                std::cout << "read_at_offset=" << (long long)(out.fault_addr - (std::uintptr_t)p) << " n=" << img.size();
            else
                std::cout << (out.expr ? out.expr : "");
            std::cout << "\n";
        }
        else if((int)valid != want_valid || (want_valid && (unsigned long long)size != want_size))
            std::cout << "FAIL " << id << " RESULT got valid=" << (int)valid << " size=" << (unsigned long long)size << " want valid=" << want_valid
                      << " size=" << want_size << "\n";
        else
            std::cout << "OK " << id << " " << want_valid << "\n";
    }
    std::cout << "DONE " << cases << "\n";
}
''')
    return "\n".join(out)


# ================================================================== reference walk

class Invalid(Exception):
    pass


def _get(buf, off, size, big, n):
    if off + size > n:
        raise Invalid()
    return int.from_bytes(bytes(buf[off:off + size]), "big" if big else "little")


def ref_members(rlevel, buf, pos, n, big):
    """consume the groups and data of a level starting at pos; -> new pos; raises Invalid when it does not fit in n"""
    for g in rlevel.groups:
        pos = ref_group(g, buf, pos, n, big)
    for d in rlevel.data:
        ln = _get(buf, pos, d.len_size, big, n)
        if pos + d.len_size + ln > n:
            raise Invalid()
        pos += d.len_size + ln
    return pos


def ref_group(g, buf, pos, n, big):
    if pos + g.dim.size > n:
        raise Invalid()
    bls, ns = g.dim.slot("blockLength"), g.dim.slot("numInGroup")
    bl = _get(buf, pos + bls.offset, psize(bls.prim), big, n)
    num = _get(buf, pos + ns.offset, psize(ns.prim), big, n)
    pos += g.dim.size
    if g.flat:
        if pos + num * bl > n:
            raise Invalid()
        return pos + num * bl
    for _ in range(num):
        if pos + bl > n:
            raise Invalid()
        pos = ref_members(g.level, buf, pos + bl, n, big)
    return pos


def ref_message(rm, buf, n, big):
    """-> (valid, size)"""
    try:
        if rm.header.size > n:
            raise Invalid()
        s = rm.header.slot("blockLength")
        bl = _get(buf, s.offset, psize(s.prim), big, n)
        if rm.header.size + bl > n:
            raise Invalid()
        return True, ref_members(rm.level, buf, rm.header.size + bl, n, big)
    except Invalid:
        return False, 0


def ref_top_group(rm, gi, buf, goff, n, big):
    """size_bytes_checked(group view at goff, n - goff) -> (valid, size relative to the group start)"""
    try:
        if goff > n:
            raise Invalid()
        end = ref_group(rm.level.groups[gi], buf, goff, n, big)
        return True, end - goff
    except Invalid:
        return False, 0


# ---------------------------------------------------------------- header field instances of a placed image

def header_fields(rm, placed):
    """[(label, abs offset, size)] of every blockLength / numInGroup / data length instance"""
    out = []
    s = rm.header.slot("blockLength")
    out.append(("root.blockLength", s.offset, psize(s.prim)))

    def lv(pl, label):
        for pg in pl.groups:
            d = pg.rgroup.dim
            for nm in ("blockLength", "numInGroup"):
                sl = d.slot(nm)
                out.append(("%s.%s.%s" % (label, pg.rgroup.name, nm), pg.start + sl.offset, psize(sl.prim)))
            for i, pe in enumerate(pg.entries):
                lv(pe, "%s.%s[%d]" % (label, pg.rgroup.name, i))
        for pd in pl.data:
            out.append(("%s.%s.length" % (label, pd.rdata.name), pd.start, pd.rdata.len_size))

    lv(placed, "m")
    return out
