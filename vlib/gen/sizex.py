"""C05 generator: trait-level size_bytes(counts..., total_data_size) for the message and for every group (at any
depth), called with the model's per-level totals and compared with the wire size of the placed instance."""
from ..model.ir import PRIMS
from . import walk


def groups_dfs(rlevel, path=()):
    """(path tuple, RGroup) in depth-first schema order"""
    for g in rlevel.groups:
        p = path + (g.name,)
        yield p, g
        yield from groups_dfs(g.level, p)


def has_data(rlevel):
    return bool(rlevel.data) or any(has_data(g.level) for g in rlevel.groups)


def driver_source(schema, rmsgs, top_header):
    n = walk.Names(schema)
    out = ['#include <%s>' % top_header, '#include "drv.hpp"', '#include <sstream>', 'VH_DEFINE_ASSERT_HANDLER', '']
    for rm in rmsgs:
        out.append('static std::size_t tsz_%s(int sel, ::drv::In& in)\n{' % rm.name)
        mtag = n.msg_tag(rm)
        allg = list(groups_dfs(rm.level))
        # message-level
        args = ["(%s)in.num()" % PRIMS[g.dim.slot("numInGroup").prim][4] for _, g in allg]
        if has_data(rm.level):
            args.append("(std::size_t)in.num()")
        out.append('  if(sel == 0) { %s return ::sbepp::message_traits<%s>::size_bytes(%s); }'
                   % ("".join("auto a%d = %s; " % (i, a) for i, a in enumerate(args)), mtag, ", ".join("a%d" % i for i in range(len(args)))))
        for k, (path, g) in enumerate(allg):
            sub = [g] + [x for _, x in groups_dfs(g.level)]
            args = ["(%s)in.num()" % PRIMS[x.dim.slot("numInGroup").prim][4] for x in sub]
            if has_data(g.level):
                args.append("(std::size_t)in.num()")
            gtag = mtag + "".join("::" + p for p in path)
            out.append('  if(sel == %d) { %s return ::sbepp::group_traits<%s>::size_bytes(%s); }'
                       % (k + 1, "".join("auto a%d = %s; " % (i, a) for i, a in enumerate(args)), gtag, ", ".join("a%d" % i for i in range(len(args)))))
        out.append('  std::exit(72);\n}')
    out.append('static std::size_t run_tsz(int mi, int sel, ::drv::In& in)\n{')
    for i, rm in enumerate(rmsgs):
        out.append('  if(mi == %d) return tsz_%s(sel, in);' % (i, rm.name))
    out.append('  std::exit(72);\n}')
    out.append(r'''
int main()
{
    std::ios::sync_with_stdio(false);
    std::string line;
    long cases = 0;
    while(std::getline(std::cin, line))
    {
        if(line.empty())
            continue;
        std::istringstream hs(line);
        std::string kind, id;
        int mi, sel;
        unsigned long long want;
        hs >> kind >> id >> mi >> sel >> want;
        std::string rest;
        std::getline(hs, rest);
        drv::In in(rest);
        cases++;
        std::size_t got = run_tsz(mi, sel, in);
        if(in.more())
            std::cout << "FAIL " << id << " HARNESS args not consumed\n";
        else if(got != want)
            std::cout << "FAIL " << id << " TRAIT-SIZE got " << got << " want " << want << "\n";
        else
            std::cout << "OK " << id << "\n";
    }
    std::cout << "DONE " << cases << "\n";
}
''')
    return "\n".join(out)


# ---------------------------------------------------------------- model side

def totals(pg_list):
    """for a list of placed group instances of the same schema group: (count, nested totals in DFS order, data bytes)"""
    raise NotImplementedError


def level_totals(placed_levels, rlevel):
    """counts per group of rlevel's subtree in DFS order summed over the given placed level instances, and data bytes"""
    counts = []
    data = 0
    for pl in placed_levels:
        data += sum(len(pd.payload) for pd in pl.data)
    for gi, g in enumerate(rlevel.groups):
        insts = [pl.groups[gi] for pl in placed_levels]
        n = sum(pg.n for pg in insts)
        entries = [pe for pg in insts for pe in pg.entries]
        sub_counts, sub_data = level_totals(entries, g.level)
        counts += [n] + sub_counts
        data += sub_data
    return counts, data


def cases(rm, placed):
    """yield (sel, expected size, [args]) for the message and for every group instance"""
    counts, data = level_totals([placed], rm.level)
    args = list(counts) + ([data] if has_data(rm.level) else [])
    yield 0, placed.end, args
    allg = list(groups_dfs(rm.level))
    index = {path: k + 1 for k, (path, _) in enumerate(allg)}

    def walk_groups(pl, rlevel, path):
        for gi, g in enumerate(rlevel.groups):
            pg = pl.groups[gi]
            p = path + (g.name,)
            sub_counts, sub_data = level_totals(pg.entries, g.level)
            a = [pg.n] + sub_counts + ([sub_data] if has_data(g.level) else [])
            yield index[p], pg.end - pg.start, a
            for pe in pg.entries:
                yield from walk_groups(pe, g.level, p)

    yield from walk_groups(placed, rm.level, ())
