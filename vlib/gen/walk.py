"""Generates, from the IR names only, the C++ walkers that bind the emitted accessors to the reference model:

    dump_<mode>_<msg>   decode everything reachable (random access | plain cursor traversal | by-tag)
    enc_<mode>_<msg>    in-order encoder driven by a token script, checked against a shadow buffer after every op

and, from the same walk order, the *expected* dump text / encode scripts computed by the model (vlib.model).
The two sides share only the walk order and the schema names; values, offsets and sizes come from the model.
"""
from ..model import codec
from ..model.ir import psize

MODES = ("ra", "cur", "tag")
ENC_MODES = MODES + ("tagc",)      # encoders also through set_by_tag / get_by_tag *with* a plain cursor


def cxx_ident(s):
    return s


class Names:
    def __init__(self, schema):
        self.ns = "::" + schema.package

    def msg_class(self, m, byte):
        return "%s::messages::%s<%s>" % (self.ns, m.name, byte)

    def msg_tag(self, m):
        return "%s::schema::messages::%s" % (self.ns, m.name)

    def type_tag(self, tname):
        return "%s::schema::types::%s" % (self.ns, tname)


# ================================================================== C++ emission

class Emitter:
    def __init__(self, schema, rmsgs):
        self.s, self.rmsgs = schema, rmsgs
        self.n = Names(schema)
        self.uid = 0

    def fresh(self, p="v"):
        self.uid += 1
        return "%s%d" % (p, self.uid)

    # ---- accessor expressions
    def get_expr(self, view, name, tagpath, mode, cursor=None):
        if mode == "tag":
            if cursor:
                return "::sbepp::get_by_tag<%s::%s>(%s, %s)" % (tagpath, name, view, cursor)
            return "::sbepp::get_by_tag<%s::%s>(%s)" % (tagpath, name, view)
        if mode == "cur" and cursor:
            return "%s.%s(%s)" % (view, name, cursor)
        return "%s.%s()" % (view, name)

    def comp_tagpath(self, node, parent_tagpath, name):
        return self.n.type_tag(node.tname) if node.tname else "%s::%s" % (parent_tagpath, name)

    # ---- dump
    def dump_node(self, out, node, expr, key, tagpath, name, mode, ind):
        """emit code dumping the value of `expr` (already evaluated accessor) under `key`"""
        a = out.append
        if node.kind == "scalar":
            a('%so.val(%s, ::drv::bits_of(%s), %d);' % (ind, key, expr, node.size))
        elif node.kind == "array":
            v = self.fresh("a")
            a('%s{ auto %s = %s; o.key(%s); o.at(::sbepp::addressof(%s)); o.sz(::sbepp::size_bytes(%s)); o.key(" ["); '
              'for(std::size_t i_ = 0; i_ < %s.size(); i_++) ::drv::hex_append(o.s, ::drv::raw_bits(%s[i_]), 1); o.key("]"); o.nl(); }'
              % (ind, v, expr, key, v, v, v, v))
        elif node.kind == "composite":
            v = self.fresh("c")
            ctp = self.comp_tagpath(node, tagpath, name)
            a('%s{ auto %s = %s; o.key(%s); o.at(::sbepp::addressof(%s)); o.sz(::sbepp::size_bytes(%s)); o.nl();'
              % (ind, v, expr, key, v, v))
            for m in node.members:
                cmode = "tag" if mode == "tag" else "ra"
                self.dump_member(out, m, v, key, ctp, cmode, None, ind + "  ", in_composite=True)
            a('%s}' % ind)
        elif node.kind == "const":
            if isinstance(node.value, bytes):
                v = self.fresh("k")
                a('%s{ auto %s = %s; o.key(%s); o.key("#=["); for(std::size_t i_ = 0; i_ < %s.size(); i_++) '
                  '::drv::hex_append(o.s, ::drv::raw_bits(%s[i_]), 1); o.key("]"); o.nl(); }' % (ind, v, expr, key, v, v))
            else:
                a('%so.val(%s + std::string("#"), ::drv::bits_of(%s), %d);' % (ind, key, expr, psize(node.prim)))

    def dump_member(self, out, m, view, pkey, tagpath, mode, cursor, ind, in_composite=False):
        key = '%s + std::string(".%s")' % (pkey, m.name)
        if m.node.kind == "const":
            # constants have only the static, cursor-less accessor
            expr = self.get_expr(view, m.name, tagpath, "tag" if mode == "tag" else "ra")
        else:
            expr = self.get_expr(view, m.name, tagpath, mode, cursor)
        self.dump_node(out, m.node, expr, key, tagpath, m.name, mode, ind)
        if cursor and m.node.kind != "const":
            out.append('%so.curline(%s.pointer());' % (ind, cursor))

    def dump_level(self, out, rlevel, view, pkey, tagpath, mode, cursor, ind):
        a = out.append
        for f in rlevel.fields:
            self.dump_member(out, f, view, pkey, tagpath, mode, cursor, ind)
        for g in rlevel.groups:
            gv, ev, iv = self.fresh("g"), self.fresh("e"), self.fresh("i")
            gkey = '%s + std::string(".%s")' % (pkey, g.name)
            gtag = "%s::%s" % (tagpath, g.name)
            a('%s{ auto %s = %s; o.key(%s); o.at(::sbepp::addressof(%s)); o.num(" n=", %s.size());'
              % (ind, gv, self.get_expr(view, g.name, tagpath, mode, cursor), gkey, gv, gv))
            if cursor:
                a('%s  o.curinl(%s.pointer()); o.nl();' % (ind, cursor))
            else:
                a('%s  o.sz(::sbepp::size_bytes(%s)); o.nl();' % (ind, gv))
            a('%s  std::size_t %s = 0;' % (ind, iv))
            if cursor:
                a('%s  for(auto %s : %s.cursor_range(%s)) {' % (ind, ev, gv, cursor))
            elif mode == "ra" and g.flat:
                # flat groups are random-access ranges: by index here, by iteration in the by-tag reader
                a('%s  for(std::size_t x_%s = 0; x_%s < (std::size_t)%s.size(); x_%s++) { auto %s = %s[(typename decltype(%s)::size_type)x_%s];'
                  % (ind, iv, iv, gv, iv, ev, gv, gv, iv))
            else:
                a('%s  for(auto %s : %s) {' % (ind, ev, gv))
            ek = self.fresh("k")
            a('%s    std::string %s = %s + "[" + std::to_string(%s) + "]";' % (ind, ek, gkey, iv))
            a('%s    o.key(%s); o.at(::sbepp::addressof(%s));' % (ind, ek, ev))
            if not cursor:
                a('%s    o.sz(::sbepp::size_bytes(%s));' % (ind, ev))
            a('%s    o.nl();' % ind)
            self.dump_level(out, g.level, ev, ek, gtag, mode, cursor, ind + "    ")
            if cursor:
                a('%s    if(o.show_cur) { o.key(%s); o.key(" end"); o.cur(%s.pointer()); o.nl(); }' % (ind, ek, cursor))
            a('%s    %s++; }' % (ind, iv))
            a('%s}' % ind)
        for d in rlevel.data:
            dv = self.fresh("d")
            dkey = '%s + std::string(".%s")' % (pkey, d.name)
            a('%s{ auto %s = %s; o.key(%s); o.at(::sbepp::addressof(%s)); o.num(" len=", %s.size()); o.sz(::sbepp::size_bytes(%s)); '
              'o.key(" ["); for(std::size_t i_ = 0; i_ < %s.size(); i_++) ::drv::hex_append(o.s, ::drv::raw_bits(%s[i_]), 1); o.key("]");'
              % (ind, dv, self.get_expr(view, d.name, tagpath, mode, cursor), dkey, dv, dv, dv, dv, dv))
            if cursor:
                a('%s  o.curinl(%s.pointer());' % (ind, cursor))
            a('%s  o.nl(); }' % ind)

    def dump_fn(self, rmsg, mode, byte="const unsigned char"):
        out = []
        a = out.append
        cls = self.n.msg_class(rmsg, byte)
        a('static void dump_%s_%s(%s* p_, std::size_t n_, ::drv::Out& o)' % (mode, rmsg.name, byte))
        a('{')
        a('  %s m{p_, n_}; o.base = (const unsigned char*)p_;' % cls)
        a('  std::string k0 = "%s";' % rmsg.name)
        cursor = None
        if mode == "cur":
            a('  auto c = ::sbepp::init_cursor(m);')
            cursor = "c"
            a('  o.key(k0); o.at(::sbepp::addressof(m)); o.curinl(c.pointer()); o.nl();')
        else:
            a('  o.key(k0); o.at(::sbepp::addressof(m)); o.sz(::sbepp::size_bytes(m)); o.nl();')
        # header through get_header (all modes)
        hv = self.fresh("h")
        a('  { auto %s = ::sbepp::get_header(m); o.key(k0 + ".$hdr"); o.at(::sbepp::addressof(%s)); o.sz(::sbepp::size_bytes(%s)); o.nl();'
          % (hv, hv, hv))
        for sname in ("blockLength", "templateId", "schemaId", "version", "numGroups", "numVarDataFields"):
            sl = rmsg.header.slot(sname)
            if sl:
                a('    o.val(k0 + ".$hdr.%s", ::drv::bits_of(%s.%s()), %d);' % (sname, hv, sname, psize(sl.prim)))
        a('  }')
        self.dump_level(out, rmsg.level, "m", "k0", self.n.msg_tag(rmsg), mode, cursor, "  ")
        if cursor:
            a('  if(o.show_cur) { o.key(k0); o.num(" cursor_size=", ::sbepp::size_bytes(m, c)); o.nl(); }')
        a('}')
        return "\n".join(out)

    # ---- encode
    def set_leaf(self, out, node, view, name, tagpath, mode, cursor, label, ind):
        """scalar/array/composite member write driven by tokens"""
        a = out.append
        if node.kind == "scalar":
            vt = self.fresh("V")
            getx = self.get_expr(view, name, tagpath, "tag" if mode == "tag" else "ra")
            a('%sif(in.num()) { using %s = typename std::decay<decltype(%s)>::type; auto x_ = ::drv::make<%s>(in.num()); k.expect(in);'
              % (ind, vt, getx, vt))
            if mode == "tag":
                if cursor:
                    a('%s  ::sbepp::set_by_tag<%s::%s>(%s, x_, %s);' % (ind, tagpath, name, view, cursor))
                else:
                    a('%s  ::sbepp::set_by_tag<%s::%s>(%s, x_);' % (ind, tagpath, name, view))
            elif cursor:
                a('%s  %s.%s(x_, %s);' % (ind, view, name, cursor))
            else:
                a('%s  %s.%s(x_);' % (ind, view, name))
            a('%s  k.point("%s"); }' % (ind, label))
            if cursor and mode == "tag":
                a('%selse { ::sbepp::get_by_tag<%s::%s>(%s, ::sbepp::cursor_ops::skip(%s)); k.point("%s(skip)"); }' % (ind, tagpath, name, view, cursor, label))
            elif cursor:
                a('%selse { %s.%s(::sbepp::cursor_ops::skip(%s)); k.point("%s(skip)"); }' % (ind, view, name, cursor, label))
        elif node.kind == "array":
            v = self.fresh("a")
            a('%s{ auto %s = %s;' % (ind, v, self.get_expr(view, name, tagpath, mode, cursor)))
            a('%s  if(in.num()) { auto b_ = in.bytes(); k.expect(in); for(std::size_t i_ = 0; i_ < b_.size(); i_++) '
              '%s[i_] = (typename decltype(%s)::value_type)b_[i_]; k.point("%s"); } }' % (ind, v, v, label))
        elif node.kind == "composite":
            v = self.fresh("c")
            ctp = self.comp_tagpath(node, tagpath, name)
            a('%s{ auto %s = %s;' % (ind, v, self.get_expr(view, name, tagpath, mode, cursor)))
            for m in node.members:
                if m.node.kind == "const":
                    continue
                self.set_leaf(out, m.node, v, m.name, ctp, "tag" if mode == "tag" else "ra", None, label + "." + m.name, ind + "  ")
            a('%s}' % ind)

    def enc_level(self, out, rlevel, view, tagpath, mode, cursor, label, ind):
        a = out.append
        for f in rlevel.fields:
            if f.node.kind == "const":
                continue
            self.set_leaf(out, f.node, view, f.name, tagpath, mode, cursor, label + "." + f.name, ind)
        for g in rlevel.groups:
            gv, ev, nv, iv = self.fresh("g"), self.fresh("e"), self.fresh("n"), self.fresh("i")
            gtag = "%s::%s" % (tagpath, g.name)
            glabel = label + "." + g.name
            a('%s{ auto %s = %s; auto %s = in.num();' % (ind, gv, self.get_expr(view, g.name, tagpath, mode, cursor), nv))
            # C17: the header filler with a list of other num_in_group arguments first (header-only writes)
            a('%s  { using N0_ = typename decltype(%s)::size_type; for(auto t_ = in.num(); t_ > 0; t_--) { auto n0_ = in.num(); k.expect(in); '
              'auto h0_ = ::sbepp::fill_group_header(%s, (N0_)n0_); if((const void*)::sbepp::addressof(h0_) != (const void*)::sbepp::addressof(%s)) k.note("%s$hdr: returned view is not the header"); k.point("%s$hdr(trial)"); } }'
              % (ind, gv, gv, gv, glabel, glabel))
            a('%s  k.expect(in);' % ind)
            a('%s  { auto hm_ = in.num(); using N_ = typename decltype(%s)::size_type;' % (ind, gv))
            a('%s    if(hm_ == 0) ::sbepp::fill_group_header(%s, (N_)%s); else { ::sbepp::fill_group_header(%s, (N_)0); %s.resize((N_)%s); } }'
              % (ind, gv, nv, gv, gv, nv))
            a('%s  k.point("%s$hdr");' % (ind, glabel))
            if cursor:
                a('%s  for(auto %s : %s.cursor_range(%s)) {' % (ind, ev, gv, cursor))
            else:
                a('%s  for(auto %s : %s) {' % (ind, ev, gv))
            self.enc_level(out, g.level, ev, gtag, mode, cursor, glabel + "[]", ind + "    ")
            a('%s  }' % ind)
            a('%s}' % ind)
        for d in rlevel.data:
            dv = self.fresh("d")
            dlabel = label + "." + d.name
            if cursor:
                getx = "%s.%s(::sbepp::cursor_ops::dont_move(%s))" % (view, d.name, cursor)
                if mode == "tag":
                    getx = "::sbepp::get_by_tag<%s::%s>(%s, ::sbepp::cursor_ops::dont_move(%s))" % (tagpath, d.name, view, cursor)
            else:
                getx = self.get_expr(view, d.name, tagpath, mode, None)
            a('%s{ auto %s = %s; auto how_ = in.num(); auto b_ = in.bytes(); k.expect(in);' % (ind, dv, getx))
            a('%s  using E_ = typename decltype(%s)::value_type; using L_ = typename decltype(%s)::size_type;' % (ind, dv, dv))
            a('%s  std::vector<E_> src_; for(auto x_ : b_) src_.push_back((E_)x_);' % ind)
            a('%s  if(how_ == 0) %s.assign_range(src_);' % (ind, dv))
            a('%s  else if(how_ == 1) { %s.resize((L_)src_.size()); for(std::size_t i_ = 0; i_ < src_.size(); i_++) %s[(L_)i_] = src_[i_]; }'
              % (ind, dv, dv))
            a('%s  else if(how_ == 2) %s.assign(src_.begin(), src_.end());' % (ind, dv))
            a('%s  else if(how_ == 3) { %s.clear(); for(auto x_ : src_) %s.push_back(x_); }' % (ind, dv, dv))
            # C-string form: only for payloads without a NUL (otherwise the range form); the terminator must not be copied
            a('%s  else if(how_ == 4) { bool z_ = false; std::string cs_; for(auto x_ : b_) { z_ = z_ || x_ == 0; cs_.push_back((char)x_); }'
              ' if(z_) %s.assign_range(src_); else %s.assign_string(cs_.c_str()); }' % (ind, dv, dv))
            a('%s  else { %s.clear(); %s.insert(%s.end(), src_.begin(), src_.end()); }' % (ind, dv, dv, dv))
            a('%s  k.point("%s");' % (ind, dlabel))
            if cursor and mode == "tag":
                a('%s  ::sbepp::get_by_tag<%s::%s>(%s, %s);' % (ind, tagpath, d.name, view, cursor))
            elif cursor:
                a('%s  %s.%s(%s);' % (ind, view, d.name, cursor))
            a('%s}' % ind)

    def enc_fn(self, rmsg, mode, byte="unsigned char"):
        out = []
        a = out.append
        cls = self.n.msg_class(rmsg, byte)
        a('static void enc_%s_%s(%s* p_, std::size_t n_, ::drv::In& in, ::drv::Chk& k)' % (mode, rmsg.name, byte))
        a('{')
        a('  %s m{p_, n_};' % cls)
        a('  k.expect(in); { auto h_ = ::sbepp::fill_message_header(m); if((const void*)::sbepp::addressof(h_) != (const void*)::sbepp::addressof(m)) k.note("$hdr: returned view is not the header"); } k.point("$hdr");')
        cursor = None
        if mode in ("cur", "tagc"):
            a('  auto c = ::sbepp::init_cursor(m);')
            cursor = "c"
        self.enc_level(out, rmsg.level, "m", self.n.msg_tag(rmsg), "tag" if mode == "tagc" else mode, cursor, rmsg.name, "  ")
        a('}')
        return "\n".join(out)


# ================================================================== expected dump text (model side)

import re as _re


def filter_dump(text, flags):
    """keep only the observations that belong to the property: 'c' cursor positions, 's' sizes"""
    if "s" not in flags:
        text = _re.sub(r" sz=\d+", "", text)
    if "c" not in flags:
        text = _re.sub(r"(?m)^  \^\d+\n", "", text)
        text = _re.sub(r"(?m)^.* end\^\d+\n", "", text)
        text = _re.sub(r"(?m)^.* cursor_size=\d+\n", "", text)
        text = _re.sub(r"  \^\d+", "", text)
    return text


def _hex(v, size):
    return "%0*x" % (size * 2, v & ((1 << (8 * size)) - 1))


class Expect:
    def __init__(self, schema, rmsg):
        self.s, self.m = schema, rmsg

    def node(self, lines, node, key, value, off, mode):
        if node.kind == "scalar":
            lines.append("%s=%s" % (key, _hex(value, node.size)))
        elif node.kind == "array":
            lines.append("%s@%d sz=%d [%s]" % (key, off, node.size, bytes(value).hex()))
        elif node.kind == "composite":
            lines.append("%s@%d sz=%d" % (key, off, node.size))
            for m in node.members:
                mk = key + "." + m.name
                if m.node.kind == "const":
                    self.const(lines, m.node, mk)
                else:
                    self.node(lines, m.node, mk, value[m.name], off + m.offset, mode)

    def const(self, lines, node, key):
        if isinstance(node.value, bytes):
            lines.append("%s#=[%s]" % (key, node.value.hex()))
        else:
            v = node.value
            if isinstance(v, float):
                import struct
                v = int.from_bytes(struct.pack("<f" if node.prim == "float" else "<d", v), "little")
            lines.append("%s#=%s" % (key, _hex(v, psize(node.prim))))

    def level(self, lines, placed, inst, key, mode):
        rl = placed.rlevel
        cur = mode == "cur"
        pmap = {pf.member.name: pf for pf in placed.fields}
        nonconst = [f for f in rl.fields if f.node.kind != "const"]
        for f in rl.fields:
            fk = key + "." + f.name
            if f.node.kind == "const":
                self.const(lines, f.node, fk)
                continue
            pf = pmap[f.name]
            self.node(lines, f.node, fk, inst["f"][f.name], pf.off, mode)
            if cur:
                last = f is nonconst[-1]
                lines.append("  ^%d" % (placed.block_end if last else pf.off + f.node.size))
        for pg in placed.groups:
            gk = key + "." + pg.rgroup.name
            if cur:
                lines.append("%s@%d n=%d  ^%d" % (gk, pg.start, pg.n, pg.start + pg.hdr))
            else:
                lines.append("%s@%d n=%d sz=%d" % (gk, pg.start, pg.n, pg.end - pg.start))
            for i, (pe, e) in enumerate(zip(pg.entries, inst["g"].get(pg.rgroup.name, []))):
                ek = "%s[%d]" % (gk, i)
                if cur:
                    lines.append("%s@%d" % (ek, pe.start))
                else:
                    lines.append("%s@%d sz=%d" % (ek, pe.start, pe.end - pe.start))
                self.level(lines, pe, e, ek, mode)
                if cur:
                    lines.append("%s end^%d" % (ek, pe.end))
        for pd in placed.data:
            dk = key + "." + pd.rdata.name
            t = "%s@%d len=%d sz=%d [%s]" % (dk, pd.start, len(pd.payload), pd.end - pd.start, pd.payload.hex())
            if cur:
                t += "  ^%d" % pd.end
            lines.append(t)

    def dump(self, placed, inst, mode, header_vals):
        m = self.m
        lines = []
        if mode == "cur":
            lines.append("%s@0  ^%d" % (m.name, m.header.size))
        else:
            lines.append("%s@0 sz=%d" % (m.name, placed.end))
        lines.append("%s.$hdr@0 sz=%d" % (m.name, m.header.size))
        for sname in ("blockLength", "templateId", "schemaId", "version", "numGroups", "numVarDataFields"):
            sl = m.header.slot(sname)
            if sl:
                lines.append("%s.$hdr.%s=%s" % (m.name, sname, _hex(header_vals[sname], psize(sl.prim))))
        self.level(lines, placed, inst, m.name, mode)
        if mode == "cur":
            rl = m.level
            has_cursor_member = bool(rl.groups or rl.data or any(f.node.kind != "const" for f in rl.fields))
            # a message without any non-constant member has no cursor-based accessor at all: nothing can move the
            # cursor from where init_cursor put it (the property's "complete traversal" is then the empty sequence)
            lines.append("%s cursor_size=%d" % (m.name, placed.end if has_cursor_member else m.header.size))
        return "\n".join(lines) + "\n"


# ================================================================== encode scripts (model side)

def _w(off, b):
    return "%d:%s" % (off, bytes(b).hex())


class Script:
    """token script + expected writes for enc_<mode>_<msg>; `write_mask(label)` decides which non-structural
    leaves are written; data_how(label) picks the data assignment method"""

    def __init__(self, schema, rmsg, placed, inst, write_mask=lambda label: True, data_how=lambda label: 0,
                 group_how=lambda label: 0):
        self.s, self.m, self.placed, self.inst = schema, rmsg, placed, inst
        self.mask, self.data_how, self.group_how = write_mask, data_how, group_how
        self.t = []
        self.big = schema.big
        self.nops = 0
        self.trials = False

    @staticmethod
    def trial_counts(g):
        from ..model.ir import psize as _ps
        mx = (1 << (8 * _ps(g.dim.slot("numInGroup").prim))) - 1
        return [0, 1, mx - 1, mx]

    def hdr_writes(self, dim, start, vals):
        ws = []
        for name, v in vals.items():
            sl = dim.slot(name)
            if sl is not None:
                n = psize(sl.prim)
                ws.append(_w(start + sl.offset, int(v & ((1 << (8 * n)) - 1)).to_bytes(n, "big" if self.big else "little")))
        return ";".join(ws) if ws else "-"

    def leaf(self, node, off, value, label):
        if node.kind == "scalar":
            if self.mask(label):
                n = node.size
                self.t += ["1", "%x" % value, _w(off, int(value).to_bytes(n, "big" if self.big else "little"))]
                self.nops += 1
            else:
                self.t.append("0")
        elif node.kind == "array":
            if self.mask(label) :
                b = bytes(value)
                self.t += ["1", b.hex() if b else "-", _w(off, b) if b else "-"]
                self.nops += 1
            else:
                self.t.append("0")
        elif node.kind == "composite":
            for m in node.members:
                if m.node.kind != "const":
                    self.leaf(m.node, off + m.offset, value[m.name], label + "." + m.name)

    def level(self, placed, inst, label):
        for pf in placed.fields:
            self.leaf(pf.member.node, pf.off, inst["f"][pf.member.name], label + "." + pf.member.name)
        for pg in placed.groups:
            g = pg.rgroup
            vals = {"blockLength": g.level.block_length, "numInGroup": pg.n, "numGroups": len(g.level.groups),
                    "numVarDataFields": len(g.level.data)}
            trials = self.trial_counts(g) if self.trials else []
            self.t += ["%x" % pg.n, "%x" % len(trials)]
            for tn in trials:
                tv = dict(vals)
                tv["numInGroup"] = tn
                self.t += ["%x" % tn, self.hdr_writes(g.dim, pg.start, tv)]
                self.nops += 1
            self.t += [self.hdr_writes(g.dim, pg.start, vals), "%x" % self.group_how(label + "." + g.name)]
            self.nops += 1
            for pe, e in zip(pg.entries, inst["g"].get(g.name, [])):
                self.level(pe, e, label + "." + g.name + "[]")
        for pd in placed.data:
            n = pd.rdata.len_size
            pre = len(pd.payload).to_bytes(n, "big" if self.big else "little")
            self.t += ["%x" % self.data_how(label + "." + pd.rdata.name), pd.payload.hex() if pd.payload else "-",
                       _w(pd.start, pre + pd.payload)]
            self.nops += 1

    def build(self):
        hv = codec.header_values(self.s, self.m, self.placed)
        self.t.append(self.hdr_writes(self.m.header, 0, hv))
        self.nops += 1
        self.level(self.placed, self.inst, self.m.name)
        return " ".join(self.t)
