"""C04 generator: for every view reachable by random access (message, every entry at every depth) and every
non-constant member, thunks for each cursor wrapper (get, and set for scalar fields); the model side emits the
expectation tokens (required position, resulting positions, result) in the same walk order."""
from ..model.ir import psize
from . import walk

WRAP = ["%s", "::sbepp::cursor_ops::init(%s)", "::sbepp::cursor_ops::dont_move(%s)",
        "::sbepp::cursor_ops::init_dont_move(%s)", "::sbepp::cursor_ops::skip(%s)"]


class CursorEmitter:
    def __init__(self, schema, rmsgs):
        self.s = schema
        self.n = walk.Names(schema)
        self.uid = 0

    def fresh(self, p):
        self.uid += 1
        return "%s%d" % (p, self.uid)

    def member(self, out, view, name, kind, is_scalar, label_expr, ind, cbyte):
        a = out.append
        a('%sx.where = %s + ".%s"; x.expect(in);' % (ind, label_expr, name))
        cur_t = "::sbepp::cursor<%s>" % cbyte
        for w in range(5):
            arg = WRAP[w] % "c_"
            if w == 4:
                a('%sx.run(%d, false, false, "%s", [&](%s& c_, ::drv::u64&) { %s.%s(%s); });' % (ind, w, kind, cur_t, view, name, arg))
            elif is_scalar:
                a('%sx.run(%d, false, true, "%s", [&](%s& c_, ::drv::u64& r_) { r_ = ::drv::bits_of(%s.%s(%s)); });'
                  % (ind, w, kind, cur_t, view, name, arg))
            else:
                a('%sx.run(%d, false, true, "%s", [&](%s& c_, ::drv::u64& r_) { r_ = ::cx::addr_off(::sbepp::addressof(%s.%s(%s)), x.base); });'
                  % (ind, w, kind, cur_t, view, name, arg))
        if is_scalar and "const" not in cbyte:
            v = self.fresh("cur")
            a('%s{ auto %s = %s.%s();' % (ind, v, view, name))
            for w in range(4):
                arg = WRAP[w] % "c_"
                a('%s  x.run(%d, true, false, "%s", [&](%s& c_, ::drv::u64&) { %s.%s(%s, %s); });' % (ind, w, kind, cur_t, view, name, v, arg))
            a('%s}' % ind)

    def level(self, out, rlevel, view, label_expr, ind, cbyte):
        a = out.append
        for f in rlevel.fields:
            if f.node.kind == "const":
                continue
            self.member(out, view, f.name, "field", f.node.kind == "scalar", label_expr, ind, cbyte)
        for g in rlevel.groups:
            self.member(out, view, g.name, "group", False, label_expr, ind, cbyte)
        for d in rlevel.data:
            self.member(out, view, d.name, "data", False, label_expr, ind, cbyte)
        for g in rlevel.groups:
            gv, ev, iv, lv = self.fresh("g"), self.fresh("e"), self.fresh("i"), self.fresh("l")
            a('%s{ auto %s = %s.%s(); std::size_t %s = 0; for(auto %s : %s) {' % (ind, gv, view, g.name, iv, ev, gv))
            a('%s    std::string %s = %s + ".%s[" + std::to_string(%s) + "]"; x.states++;' % (ind, lv, label_expr, g.name, iv))
            self.level(out, g.level, ev, lv, ind + "    ", cbyte)
            a('%s    %s++; } }' % (ind, iv))

    def explore_fn(self, rmsg, cbyte):
        out = []
        a = out.append
        tag = "c" if "const" in cbyte else "m"
        a('static void explore_%s_%s(unsigned char* p_, std::size_t n_, ::drv::In& in, ::cx::X<%s>& x)' % (tag, rmsg.name, cbyte))
        a('{')
        a('  %s m{p_, n_}; std::string l0 = "%s"; x.states++;' % (self.n.msg_class(rmsg, "unsigned char"), rmsg.name))
        self.level(out, rmsg.level, "m", "l0", "  ", cbyte)
        a('}')
        return "\n".join(out)


def expectation_tokens(rmsg, placed, inst, big):
    """tokens in the emitter's walk order"""
    t = []

    def tok(req, a_move, a_stay, a_skip, res, res_bytes):
        t.extend(["%x" % (req + 1), "%x" % a_move, "%x" % a_stay, "%x" % a_skip, "%x" % res, "%x" % res_bytes])

    def level(p, ins):
        prev_end = p.block_start
        nc = p.fields
        for i, pf in enumerate(nc):
            node = pf.member.node
            last = i == len(nc) - 1
            end = p.block_end if last else pf.off + node.size
            if node.kind == "scalar":
                tok(prev_end, end, prev_end, end, ins["f"][pf.member.name], node.size)
            else:
                tok(prev_end, end, prev_end, end, pf.off, 0)
            prev_end = pf.off + node.size
        first = True
        for pg in p.groups:
            tok(-1 if first else pg.start, pg.start + pg.hdr, pg.start, pg.end, pg.start, 0)
            first = False
        for pd in p.data:
            tok(-1 if first else pd.start, pd.end, pd.start, pd.end, pd.start, 0)
            first = False
        for pg in p.groups:
            for pe, e in zip(pg.entries, ins["g"].get(pg.rgroup.name, [])):
                level(pe, e)

    level(placed, inst)
    return " ".join(t)


MAIN = r'''
int main()
{
    std::ios::sync_with_stdio(false);
    static vh::guarded_buffer gb(1 << 16);
    std::string line;
    long cases = 0;
    while(std::getline(std::cin, line))
    {
        if(line.empty())
            continue;
        std::istringstream hs(line);
        std::string kind, id, hex;
        int mi;
        hs >> kind >> id >> mi >> hex;
        std::string rest;
        std::getline(hs, rest);
        drv::In in(rest);
        auto img = drv::unhex(hex);
        gb.fill(0xCD);
        unsigned char* p = gb.at(img.size());
        std::memcpy(p, img.data(), img.size());
        cases++;
        long tr = 0, legal = 0, illegal = 0, states = 0;
        std::map<std::string, std::string> fails;
        if(kind == "M")
        {
            cx::X<unsigned char> x;
            x.base = p; x.len = img.size(); x.image = img;
            run_explore_m(mi, p, img.size(), in, x);
            tr = x.transitions; legal = x.legal; illegal = x.illegal; states = x.states; fails = x.fails;
        }
        else
        {
            cx::X<const unsigned char> x;
            x.base = p; x.len = img.size(); x.image = img;
            run_explore_c(mi, p, img.size(), in, x);
            tr = x.transitions; legal = x.legal; illegal = x.illegal; states = x.states; fails = x.fails;
        }
        if(in.more())
            std::cout << "FAIL " << id << " HARNESS expectation tokens not consumed\n";
        else if(fails.empty())
            std::cout << "OK " << id << " " << tr << " " << legal << " " << illegal << " " << states * (long)(img.size() + 2) << "\n";
        else
        {
            std::cout << "FAIL " << id << " CURSOR";
            for(auto& kv : fails)
                std::cout << " ## " << kv.first << " => " << kv.second;
            std::cout << "\n";
        }
    }
    std::cout << "DONE " << cases << "\n";
}
'''


def driver_source(schema, rmsgs, top_header):
    em = CursorEmitter(schema, rmsgs)
    out = ['#include <%s>' % top_header, '#include "cx.hpp"', '#include <sstream>', 'VH_DEFINE_ASSERT_HANDLER', '']
    for rm in rmsgs:
        out.append(em.explore_fn(rm, "unsigned char"))
        out.append(em.explore_fn(rm, "const unsigned char"))
    for tag, cb in (("m", "unsigned char"), ("c", "const unsigned char")):
        out.append('static void run_explore_%s(int mi, unsigned char* p, std::size_t n, ::drv::In& in, ::cx::X<%s>& x)\n{' % (tag, cb))
        for i, rm in enumerate(rmsgs):
            out.append('  if(mi == %d) return explore_%s_%s(p, n, in, x);' % (i, tag, rm.name))
        out.append('  std::exit(72);\n}')
    out.append(MAIN)
    return "\n".join(out)
