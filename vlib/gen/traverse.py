"""C04 traversal part: complete in-order cursor traversals in which every member is taken with a wrapper chosen from a
cyclic choice string (plain / init / skip / dont_move+plain / init_dont_move+plain) and every group is iterated in a
style chosen from a second string (cursor_range / cursor_begin..cursor_end / cursor_subrange(0) / cursor_subrange(0,n) /
split subranges).  The expected trace (values, view addresses, cursor after every call, final cursor) is computed by
the model for the same strings."""
from . import walk
from .cursorx import WRAP

CH_PLAIN, CH_INIT, CH_SKIP, CH_DM, CH_IDM = range(5)


class TraverseEmitter(walk.Emitter):
    by_tag = False

    def acc(self, view, name, tagpath, carg):
        """cursor accessor in named or by-tag form"""
        if self.by_tag:
            return "::sbepp::get_by_tag<%s::%s>(%s, %s)" % (tagpath, name, view, carg)
        return "%s.%s(%s)" % (view, name, carg)

    def member(self, out, m, view, pkey, tagpath, ind):
        a = out.append
        key = '%s + std::string(".%s")' % (pkey, m.name)
        if m.node.kind == "const":
            self.dump_node(out, m.node, "%s.%s()" % (view, m.name), key, tagpath, m.name, "ra", ind)
            return
        a('%s{ int ch_ = o.choice();' % ind)
        for ch, w in ((CH_DM, 2), (CH_IDM, 3)):
            a('%s  if(ch_ == %d) {' % (ind, ch))
            self.dump_node(out, m.node, self.acc(view, m.name, tagpath, WRAP[w] % "c"), key, tagpath, m.name, "ra", ind + "    ")
            a('%s    o.curline(c.pointer()); }' % ind)
        a('%s  if(ch_ == %d) { %s; o.key(%s); o.key(" skipped"); o.nl(); o.curline(c.pointer()); }' % (ind, CH_SKIP, self.acc(view, m.name, tagpath, WRAP[4] % "c"), key))
        a('%s  else if(ch_ == %d) {' % (ind, CH_INIT))
        self.dump_node(out, m.node, self.acc(view, m.name, tagpath, WRAP[1] % "c"), key, tagpath, m.name, "ra", ind + "    ")
        a('%s    o.curline(c.pointer()); }' % ind)
        a('%s  else {' % ind)
        self.dump_node(out, m.node, self.acc(view, m.name, tagpath, "c"), key, tagpath, m.name, "ra", ind + "    ")
        a('%s    o.curline(c.pointer()); }' % ind)
        a('%s}' % ind)

    def level(self, out, rlevel, view, pkey, tagpath, ind):
        a = out.append
        for f in rlevel.fields:
            self.member(out, f, view, pkey, tagpath, ind)
        for g in rlevel.groups:
            gv, ev, iv, bd, ek = self.fresh("g"), self.fresh("e"), self.fresh("i"), self.fresh("body"), self.fresh("k")
            gkey = '%s + std::string(".%s")' % (pkey, g.name)
            gtag = "%s::%s" % (tagpath, g.name)
            a('%s{ int ch_ = o.choice();' % ind)
            for ch, w in ((CH_DM, 2), (CH_IDM, 3)):
                a('%s  if(ch_ == %d) { auto g0_ = %s; o.key(%s); o.at(::sbepp::addressof(g0_)); o.num(" n=", g0_.size()); o.curinl(c.pointer()); o.nl(); }'
                  % (ind, ch, self.acc(view, g.name, tagpath, WRAP[w] % "c"), gkey))
            a('%s  if(ch_ == %d) { %s; o.key(%s); o.key(" skipped"); o.curinl(c.pointer()); o.nl(); }'
              % (ind, CH_SKIP, self.acc(view, g.name, tagpath, WRAP[4] % "c"), gkey))
            a('%s  else { auto %s = (ch_ == %d) ? %s : %s;' % (ind, gv, CH_INIT, self.acc(view, g.name, tagpath, WRAP[1] % "c"), self.acc(view, g.name, tagpath, "c")))
            a('%s    o.key(%s); o.at(::sbepp::addressof(%s)); o.num(" n=", %s.size()); o.curinl(c.pointer()); o.nl();' % (ind, gkey, gv, gv))
            a('%s    std::size_t %s = 0; using E_ = typename decltype(%s)::value_type; using N_ = typename decltype(%s)::size_type;' % (ind, iv, gv, gv))
            a('%s    auto %s = [&](E_ %s) {' % (ind, bd, ev))
            a('%s      std::string %s = %s + "[" + std::to_string(%s) + "]";' % (ind, ek, gkey, iv))
            a('%s      o.key(%s); o.at(::sbepp::addressof(%s)); o.nl();' % (ind, ek, ev))
            self.level(out, g.level, ev, ek, gtag, ind + "      ")
            a('%s      o.key(%s); o.key(" end"); o.cur(c.pointer()); o.nl(); %s++; };' % (ind, ek, iv))
            a('%s    const N_ n_ = %s.size(); int st_ = o.style();' % (ind, gv))
            a('%s    if(st_ == 1) { auto it_ = %s.cursor_begin(c); auto en_ = %s.cursor_end(c); for(; it_ != en_; ++it_) %s(*it_); }' % (ind, gv, gv, bd))
            a('%s    else if(st_ == 2 && n_ > 0) { for(auto e_ : %s.cursor_subrange(c, (N_)0)) %s(e_); }' % (ind, gv, bd))
            a('%s    else if(st_ == 3 && n_ > 0) { for(auto e_ : %s.cursor_subrange(c, (N_)0, n_)) %s(e_); }' % (ind, gv, bd))
            a('%s    else if(st_ == 4 && n_ >= 2) { for(auto e_ : %s.cursor_subrange(c, (N_)0, (N_)1)) %s(e_); for(auto e_ : %s.cursor_subrange(c, (N_)1)) %s(e_); }'
              % (ind, gv, bd, gv, bd))
            a('%s    else { for(auto e_ : %s.cursor_range(c)) %s(e_); }' % (ind, gv, bd))
            a('%s  } }' % ind)
        for d in rlevel.data:
            dkey = '%s + std::string(".%s")' % (pkey, d.name)
            pr = ('o.key(%s); o.at(::sbepp::addressof(d_)); o.num(" len=", d_.size()); o.key(" ["); for(std::size_t i_ = 0; i_ < d_.size(); i_++) '
                  '::drv::hex_append(o.s, ::drv::raw_bits(d_[i_]), 1); o.key("]"); o.curinl(c.pointer()); o.nl();' % dkey)
            a('%s{ int ch_ = o.choice();' % ind)
            for ch, w in ((CH_DM, 2), (CH_IDM, 3)):
                a('%s  if(ch_ == %d) { auto d_ = %s; %s }' % (ind, ch, self.acc(view, d.name, tagpath, WRAP[w] % "c"), pr))
            a('%s  if(ch_ == %d) { %s; o.key(%s); o.key(" skipped"); o.curinl(c.pointer()); o.nl(); }' % (ind, CH_SKIP, self.acc(view, d.name, tagpath, WRAP[4] % "c"), dkey))
            a('%s  else if(ch_ == %d) { auto d_ = %s; %s }' % (ind, CH_INIT, self.acc(view, d.name, tagpath, WRAP[1] % "c"), pr))
            a('%s  else { auto d_ = %s; %s }' % (ind, self.acc(view, d.name, tagpath, "c"), pr))
            a('%s}' % ind)

    def fn(self, rmsg, byte="const unsigned char"):
        out = []
        a = out.append
        a('static void dump_curw%s_%s(%s* p_, std::size_t n_, ::drv::Out& o)' % ("t" if self.by_tag else "", rmsg.name, byte))
        a('{')
        a('  %s m{p_, n_}; o.base = (const unsigned char*)p_; std::string k0 = "%s";' % (self.n.msg_class(rmsg, byte), rmsg.name))
        a('  auto c = ::sbepp::init_cursor(m); o.key(k0); o.at(::sbepp::addressof(m)); o.curinl(c.pointer()); o.nl();')
        self.level(out, rmsg.level, "m", "k0", self.n.msg_tag(rmsg), "  ")
        a('  o.key(k0); o.num(" cursor_size=", ::sbepp::size_bytes(m, c)); o.nl();')
        a('}')
        return "\n".join(out)


class Choices:
    def __init__(self, s):
        self.s, self.i = s, 0

    def next(self):
        c = int(self.s[self.i % len(self.s)])
        self.i += 1
        return c


class TraverseExpect(walk.Expect):
    """model trace for the same choice string; the group iteration style does not change the trace"""

    def trace(self, placed, inst, choices):
        self.ch = Choices(choices)
        m = self.m
        lines = ["%s@0  ^%d" % (m.name, m.header.size)]
        end = self.lv(lines, placed, inst, m.name, m.header.size)
        lines.append("%s cursor_size=%d" % (m.name, end))
        return "\n".join(lines) + "\n"

    def lv(self, lines, placed, inst, key, cur):
        """-> cursor after the level's traversal"""
        rl = placed.rlevel
        pmap = {pf.member.name: pf for pf in placed.fields}
        nonconst = [f for f in rl.fields if f.node.kind != "const"]
        prev_end = placed.block_start
        for f in rl.fields:
            fk = key + "." + f.name
            if f.node.kind == "const":
                self.const(lines, f.node, fk)
                continue
            pf = pmap[f.name]
            after = placed.block_end if f is nonconst[-1] else pf.off + f.node.size
            ch = self.ch.next()
            val = []
            self.node(val, f.node, fk, inst["f"][f.name], pf.off, "cur")
            val = [walk.filter_dump(v + "\n", "c").rstrip("\n") for v in val]
            if ch == CH_DM:
                lines += val + ["  ^%d" % cur]
            elif ch == CH_IDM:
                cur = prev_end
                lines += val + ["  ^%d" % cur]
            if ch == CH_SKIP:
                lines += ["%s skipped" % fk, "  ^%d" % after]
            else:
                lines += val + ["  ^%d" % after]
            cur = after
            prev_end = pf.off + f.node.size
        for pg in placed.groups:
            gk = key + "." + pg.rgroup.name
            ch = self.ch.next()
            if ch in (CH_DM, CH_IDM):
                cur = pg.start
                lines.append("%s@%d n=%d  ^%d" % (gk, pg.start, pg.n, cur))
            if ch == CH_SKIP:
                cur = pg.end
                lines.append("%s skipped  ^%d" % (gk, cur))
                continue
            cur = pg.start + pg.hdr
            lines.append("%s@%d n=%d  ^%d" % (gk, pg.start, pg.n, cur))
            for i, (pe, e) in enumerate(zip(pg.entries, inst["g"].get(pg.rgroup.name, []))):
                ek = "%s[%d]" % (gk, i)
                lines.append("%s@%d" % (ek, pe.start))
                cur = self.entry(lines, pe, e, ek, cur)
                lines.append("%s end^%d" % (ek, cur))
        for pd in placed.data:
            dk = key + "." + pd.rdata.name
            ch = self.ch.next()
            t = "%s@%d len=%d [%s]" % (dk, pd.start, len(pd.payload), pd.payload.hex())
            if ch in (CH_DM, CH_IDM):
                cur = pd.start
                lines.append("%s  ^%d" % (t, cur))
            cur = pd.end
            if ch == CH_SKIP:
                lines.append("%s skipped  ^%d" % (dk, cur))
            else:
                lines.append("%s  ^%d" % (t, cur))
        return cur

    def entry(self, lines, pe, e, ek, cur):
        rl = pe.rlevel
        has_member = bool(rl.groups or rl.data or any(f.node.kind != "const" for f in rl.fields))
        if not has_member:
            # entries without any cursor-visible member are advanced by their constructor
            for f in rl.fields:
                self.const(lines, f.node, ek + "." + f.name)
            return pe.start + pe.bl
        return self.lv(lines, pe, e, ek, cur)


def driver_source(schema, rmsgs, top_header):
    from . import build
    em = TraverseEmitter(schema, rmsgs)
    emt = TraverseEmitter(schema, rmsgs)
    emt.by_tag = True
    out = ['#include <%s>' % top_header, '#include "drv.hpp"', '#include <sstream>', 'VH_DEFINE_ASSERT_HANDLER', '']
    for rm in rmsgs:
        out.append(em.fn(rm))
        out.append(emt.fn(rm))
    out.append('static void run_dump(int mi, const std::string& mode, const unsigned char* p, std::size_t n, ::drv::Out& o)\n{')
    for i, rm in enumerate(rmsgs):
        out.append('  if(mi == %d && mode == "curw") return dump_curw_%s(p, n, o);' % (i, rm.name))
        out.append('  if(mi == %d && mode == "curwt") return dump_curwt_%s(p, n, o);' % (i, rm.name))
    out.append('  std::exit(72);\n}')
    out.append('static void run_enc(int, const std::string&, unsigned char*, std::size_t, ::drv::In&, ::drv::Chk&) { std::exit(72); }')
    out.append(build.MAIN_TMPL)
    return "\n".join(out)
