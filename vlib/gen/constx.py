"""C11 generator: the complete mutator list of every view class of a schema, as detection-idiom probes.

Each probe is an expression over V (a view / array / data type) and optionally C (a cursor type).  Stage 1 (one TU per
schema) evaluates the idiom for the const combinations and for the mutable twin (positive control) and prints a table;
stage 2 compiles every probe the idiom reports invocable on a const combination alone as a real call: if that
compiles, the mutator is reachable on a read-only view."""
from . import walk


class Probe:
    def __init__(self, pid, kind, what, vm, vc, expr, cursor=False, decls=""):
        self.pid, self.kind, self.what = pid, kind, what
        self.vm, self.vc = vm, vc          # mutable / const type aliases
        self.expr = expr                   # expression text using V() for the object and (if cursor) C() for the cursor
        self.cursor = cursor


class ConstProbes:
    def __init__(self, schema, rmsgs, bytes_=("char", "const char")):
        self.s, self.rmsgs = schema, rmsgs
        self.bytes = bytes_    # (mutable byte type, read-only byte type)
        self.n = walk.Names(schema)
        self.aliases = []      # (name, c++ type expr) in dependency order, per byte type suffix
        self.probes = []
        self.conv = []         # (mutable alias, const alias, what)
        self.derived = []      # Probe: expression yielding a *view*; its byte type must be const unless everything is mutable
        self.k = 0

    WRAPPERS = [("plain", "C()"), ("init", "::sbepp::cursor_ops::init(C())"), ("dont_move", "::sbepp::cursor_ops::dont_move(C())"),
                ("init_dont_move", "::sbepp::cursor_ops::init_dont_move(C())")]

    def derive(self, kind, what, vm, vc, expr, cursor=False):
        self.k += 1
        self.derived.append(Probe(self.k, kind, what, vm, vc, expr, cursor))

    def derive_member(self, mkind, vm, vc, name, tagpath, base):
        """view-returning accessor `name` of a level: through every cursor wrapper, named and by tag, and without cursor"""
        self.derive("derived-view:%s:random-access" % mkind, "%s.%s()" % (base, name), vm, vc, "V().%s()" % name)
        self.derive("derived-view:%s:get_by_tag" % mkind, "get_by_tag<%s>(%s)" % (name, base), vm, vc, "::sbepp::get_by_tag<%s::%s>(V())" % (tagpath, name))
        for wn, w in self.WRAPPERS:
            self.derive("derived-view:%s:cursor-%s" % (mkind, wn), "%s.%s(%s(c))" % (base, name, wn), vm, vc, "V().%s(%s)" % (name, w), cursor=True)
            self.derive("derived-view:%s:get_by_tag-cursor-%s" % (mkind, wn), "get_by_tag<%s>(%s, %s(c))" % (name, base, wn), vm, vc,
                        "::sbepp::get_by_tag<%s::%s>(V(), %s)" % (tagpath, name, w), cursor=True)

    def alias(self, base, expr_m, expr_c):
        self.aliases.append((base + "_m", expr_m))
        self.aliases.append((base + "_c", expr_c))
        self.conv.append((base + "_m", base + "_c", base))
        return base + "_m", base + "_c"

    def add(self, kind, what, vm, vc, expr, cursor=False):
        self.k += 1
        self.probes.append(Probe(self.k, kind, what, vm, vc, expr, cursor))

    def value_of(self, vm, name):
        return "std::declval<typename std::decay<decltype(std::declval<%s>().%s())>::type>()" % (vm, name)

    def node(self, node, vm, vc, name, tagpath, base, on_level):
        get_m = "decltype(std::declval<%s>().%s())" % (vm, name)
        get_c = "decltype(std::declval<%s>().%s())" % (vc, name)
        if node.kind == "scalar":
            val = self.value_of(vm, name)
            self.add("field-setter", "%s.%s(v)" % (base, name), vm, vc, "V().%s(%s)" % (name, val))
            self.add("set_by_tag", "set_by_tag<%s>(%s, v)" % (name, base), vm, vc, "::sbepp::set_by_tag<%s::%s>(V(), %s)" % (tagpath, name, val))
            if on_level:
                self.add("cursor-setter", "%s.%s(v, c)" % (base, name), vm, vc, "V().%s(%s, C())" % (name, val), cursor=True)
                self.add("cursor-setter-wrapped", "%s.%s(v, init(c))" % (base, name), vm, vc,
                         "V().%s(%s, ::sbepp::cursor_ops::init(C()))" % (name, val), cursor=True)
                self.add("set_by_tag-cursor", "set_by_tag<%s>(%s, v, c)" % (name, base), vm, vc,
                         "::sbepp::set_by_tag<%s::%s>(V(), %s, C())" % (tagpath, name, val), cursor=True)
        elif node.kind == "array":
            if on_level:
                self.derive_member("array", vm, vc, name, tagpath, base)
            am, ac = self.alias("A%d" % len(self.aliases), "typename std::decay<%s>::type" % get_m, "typename std::decay<%s>::type" % get_c)
            ev = "std::declval<typename %s::value_type>()" % am
            for what, expr in [("assign_string(cstr)", 'V().assign_string("x")'),
                               ("assign_string(cstr, eos)", 'V().assign_string("x", ::sbepp::eos_null::none)'),
                               ("assign_string(range)", "V().assign_string(std::declval<std::string&>())"),
                               ("assign_range", "V().assign_range(std::declval<std::string&>())"),
                               ("fill", "V().fill(%s)" % ev),
                               ("assign(cnt,v)", "V().assign(std::size_t{}, %s)" % ev),
                               ("assign(first,last)", "V().assign(std::declval<const typename %s::value_type*>(), std::declval<const typename %s::value_type*>())" % (am, am)),
                               ("assign(ilist)", "V().assign(std::declval<std::initializer_list<typename %s::value_type>>())" % am),
                               ("operator[] =", "V()[0] = %s" % ev),
                               ("*begin() =", "*V().begin() = %s" % ev),
                               ("front() =", "V().front() = %s" % ev),
                               ("*data() =", "*V().data() = %s" % ev),
                               ("raw()[0] =", "V().raw()[0] = std::declval<typename std::remove_cv<typename ::sbepp::byte_type_t<V>>::type>()")]:
                self.add("array:" + what, "%s.%s %s" % (base, name, what), am, ac, expr)
        elif node.kind == "composite":
            if on_level:
                self.derive_member("composite", vm, vc, name, tagpath, base)
            cm, cc = self.alias("C%d" % len(self.aliases), "typename std::decay<%s>::type" % get_m, "typename std::decay<%s>::type" % get_c)
            ctp = self.n.type_tag(node.tname) if node.tname else "%s::%s" % (tagpath, name)
            for m in node.members:
                if m.node.kind != "const":
                    self.node(m.node, cm, cc, m.name, ctp, base + "." + name, False)

    def level(self, rlevel, vm, vc, tagpath, base):
        for f in rlevel.fields:
            if f.node.kind != "const":
                self.node(f.node, vm, vc, f.name, tagpath, base, True)
        for g in rlevel.groups:
            gm, gc = self.alias("G%d" % len(self.aliases), "typename std::decay<decltype(std::declval<%s>().%s())>::type" % (vm, g.name),
                                "typename std::decay<decltype(std::declval<%s>().%s())>::type" % (vc, g.name))
            nv = "std::declval<typename %s::size_type>()" % gm
            gb = "%s.%s" % (base, g.name)
            self.derive_member("group", vm, vc, g.name, tagpath, base)
            for what, expr in [("[0]", "V()[0]"), ("*begin()", "*V().begin()"), ("front()", "V().front()"), ("back()", "V().back()")]:
                if what in ("[0]", "back()") and (g.level.groups or g.level.data):
                    continue      # groups whose entries have variable-length members are forward ranges
                self.derive("derived-view:entry:random-access", gb + what, gm, gc, expr)
            for what, expr in [("*cursor_range(c).begin()", "*V().cursor_range(C()).begin()"), ("*cursor_begin(c)", "*V().cursor_begin(C())"),
                               ("*cursor_subrange(c,0).begin()", "*V().cursor_subrange(C(), typename V::size_type{}).begin()"),
                               ("*cursor_subrange(c,0,0).begin()", "*V().cursor_subrange(C(), typename V::size_type{}, typename V::size_type{}).begin()")]:
                self.derive("derived-view:entry:cursor-iteration", gb + "." + what, gm, gc, expr, cursor=True)
            self.add("group:resize", gb + ".resize(n)", gm, gc, "V().resize(%s)" % nv)
            self.add("group:clear", gb + ".clear()", gm, gc, "V().clear()")
            self.add("fill_group_header", "fill_group_header(%s, n)" % gb, gm, gc, "::sbepp::fill_group_header(V(), %s)" % nv)
            self.add("group:header-setter", "get_header(%s).numInGroup(n)" % gb, gm, gc,
                     "::sbepp::get_header(V()).numInGroup(std::declval<typename std::decay<decltype(::sbepp::get_header(std::declval<%s>()).numInGroup())>::type>())" % gm)
            em, ec = self.alias("E%d" % len(self.aliases), "typename %s::value_type" % gm, "typename %s::value_type" % gc)
            self.level(g.level, em, ec, "%s::%s" % (tagpath, g.name), gb + "[]")
        for d in rlevel.data:
            dm, dc = self.alias("D%d" % len(self.aliases), "typename std::decay<decltype(std::declval<%s>().%s())>::type" % (vm, d.name),
                                "typename std::decay<decltype(std::declval<%s>().%s())>::type" % (vc, d.name))
            ev = "std::declval<typename %s::value_type>()" % dm
            it = "std::declval<typename V::iterator>()"
            sz = "std::declval<typename %s::size_type>()" % dm
            cp = "std::declval<const typename %s::value_type*>()" % dm
            il = "std::declval<std::initializer_list<typename %s::value_type>>()" % dm
            db = "%s.%s" % (base, d.name)
            self.derive_member("data", vm, vc, d.name, tagpath, base)
            for what, expr in [("push_back", "V().push_back(%s)" % ev), ("pop_back", "V().pop_back()"), ("clear", "V().clear()"),
                               ("insert(pos,v)", "V().insert(%s, %s)" % (it, ev)), ("insert(pos,cnt,v)", "V().insert(%s, %s, %s)" % (it, sz, ev)),
                               ("insert(pos,first,last)", "V().insert(%s, %s, %s)" % (it, cp, cp)), ("insert(pos,ilist)", "V().insert(%s, %s)" % (it, il)),
                               ("erase(pos)", "V().erase(%s)" % it), ("erase(first,last)", "V().erase(%s, %s)" % (it, it)),
                               ("resize(n)", "V().resize(%s)" % sz), ("resize(n,v)", "V().resize(%s, %s)" % (sz, ev)),
                               ("resize(n,default_init)", "V().resize(%s, ::sbepp::default_init)" % sz),
                               ("assign(cnt,v)", "V().assign(%s, %s)" % (sz, ev)), ("assign(first,last)", "V().assign(%s, %s)" % (cp, cp)),
                               ("assign(ilist)", "V().assign(%s)" % il), ("assign_string", 'V().assign_string("x")'),
                               ("assign_range", "V().assign_range(std::declval<std::string&>())"),
                               ("operator[] =", "V()[0] = %s" % ev), ("*begin() =", "*V().begin() = %s" % ev), ("front() =", "V().front() = %s" % ev),
                               ("back() =", "V().back() = %s" % ev), ("*data() =", "*V().data() = %s" % ev)]:
                self.add("data:" + what, "%s %s" % (db, what), dm, dc, expr)

    def build(self):
        for rm in self.rmsgs:
            mm, mc = self.alias("M_" + rm.name, self.n.msg_class(rm, self.bytes[0]), self.n.msg_class(rm, self.bytes[1]))
            self.add("fill_message_header", "fill_message_header(%s)" % rm.name, mm, mc, "::sbepp::fill_message_header(V())")
            self.add("message:header-setter", "get_header(%s).blockLength(x)" % rm.name, mm, mc,
                     "::sbepp::get_header(V()).blockLength(std::declval<typename std::decay<decltype(::sbepp::get_header(std::declval<%s>()).blockLength())>::type>())" % mm)
            self.level(rm.level, mm, mc, self.n.msg_tag(rm), rm.name)
        return self


def stage1_source(schema, rmsgs, top_header, bytes_=("char", "const char")):
    cp = ConstProbes(schema, rmsgs, bytes_).build()
    out = ['#include <%s>' % top_header, '#include <string>', '#include <cstdio>', '#include <initializer_list>', '#include <type_traits>',
           'using CUR_m = ::sbepp::cursor<%s>; using CUR_c = ::sbepp::cursor<%s>;' % bytes_]
    for name, expr in cp.aliases:
        out.append('using %s = %s;' % (name, expr))
    out.append('#define V() std::declval<V_>()')
    out.append('#define C() std::declval<C_&>()')
    for p in cp.probes:
        out.append('template<class V_, class C_, class = void> struct P%d : std::false_type {};' % p.pid)
        out.append('template<class V_, class C_> struct P%d<V_, C_, ::sbepp::detail::void_t<decltype(%s)>> : std::true_type {};' % (p.pid, p.expr.replace("typename V::", "typename V_::").replace("byte_type_t<V>", "byte_type_t<V_>")))
    for p in cp.derived:
        e = p.expr.replace("typename V::", "typename V_::")
        out.append('template<class V_, class C_, class = void> struct D%d { static constexpr int inv = 0, cb = -1; };' % p.pid)
        out.append('template<class V_, class C_> struct D%d<V_, C_, ::sbepp::detail::void_t<decltype(%s)>> { static constexpr int inv = 1, '
                   'cb = std::is_const< ::sbepp::byte_type_t<typename std::decay<decltype(%s)>::type>>::value; };' % (p.pid, e, e))
    out.append('int main()\n{')
    for p in cp.derived:
        if p.cursor:
            combos = [("mut/mut", p.vm, "CUR_m"), ("const-view/mut-cursor", p.vc, "CUR_m"), ("mut-view/const-cursor", p.vm, "CUR_c"),
                      ("const-view/const-cursor", p.vc, "CUR_c")]
        else:
            combos = [("mut", p.vm, "CUR_m"), ("const", p.vc, "CUR_m")]
        for cname, v, c in combos:
            out.append('  std::printf("D\\t%d\\t%s\\t%%d\\t%%d\\n", (int)D%d<%s, %s>::inv, (int)D%d<%s, %s>::cb);' % (p.pid, cname, p.pid, v, c, p.pid, v, c))
    for p in cp.probes:
        if p.cursor:
            combos = [("mut/mut", p.vm, "CUR_m"), ("const-view/mut-cursor", p.vc, "CUR_m"), ("mut-view/const-cursor", p.vm, "CUR_c"),
                      ("const-view/const-cursor", p.vc, "CUR_c")]
        else:
            combos = [("mut", p.vm, "CUR_m"), ("const", p.vc, "CUR_m")]
        for cname, v, c in combos:
            out.append('  std::printf("P\\t%d\\t%s\\t%%d\\n", (int)P%d<%s, %s>::value);' % (p.pid, cname, p.pid, v, c))
    # implicit conversions: towards more-const only
    for m, c, what in cp.conv:
        out.append('  std::printf("CONV\\t%s\\t%%d\\t%%d\\n", (int)std::is_convertible<%s, %s>::value, (int)std::is_convertible<%s, %s>::value);' % (what, m, c, c, m))
    out.append('  std::printf("CONV\\tcursor\\t%d\\t%d\\n", (int)std::is_convertible<CUR_m, CUR_c>::value, (int)std::is_convertible<CUR_c, CUR_m>::value);')
    out.append('  std::printf("DONE\\n");\n  return 0;\n}')
    return "\n".join(out), cp


def stage2_source(schema, top_header, cp, probe, combo):
    """a real call of the probe on the const combination"""
    v = probe.vc if combo.startswith("const") else probe.vm
    c = "CUR_c" if combo.endswith("const-cursor") else "CUR_m"
    out = ['#include <%s>' % top_header, '#include <string>', '#include <initializer_list>',
           'using CUR_m = ::sbepp::cursor<%s>; using CUR_c = ::sbepp::cursor<%s>;' % cp.bytes]
    for name, expr in cp.aliases:
        out.append('using %s = %s;' % (name, expr))
    expr = probe.expr.replace("typename V::", "typename V_::").replace("byte_type_t<V>", "byte_type_t<V_>")
    out.append('template<class T> T& make();')
    out.append('using V_ = %s; using C_ = %s;' % (v, c))
    out.append('#define V() make<V_>()')
    out.append('#define C() make<C_>()')
    out.append('void probe() { (void)(%s); }' % expr.replace("std::declval<", "make<"))
    return "\n".join(out)


def stage2_batch_source(schema, top_header, cp, flagged):
    """all flagged probes as real calls, one per line; -> (text, {line number: (probe, combo)})"""
    out = ['#include <%s>' % top_header, '#include <string>', '#include <initializer_list>',
           'using CUR_m = ::sbepp::cursor<%s>; using CUR_c = ::sbepp::cursor<%s>;' % cp.bytes]
    for name, expr in cp.aliases:
        out.append('using %s = %s;' % (name, expr))
    out.append('template<class T> T& make();')
    lines = {}
    for i, (probe, combo) in enumerate(flagged):
        v = probe.vc if combo.startswith("const") else probe.vm
        c = "CUR_c" if combo.endswith("const-cursor") else "CUR_m"
        expr = probe.expr.replace("typename V::", "typename V_::").replace("byte_type_t<V>", "byte_type_t<V_>")
        expr = expr.replace("V()", "make<V_>()").replace("C()", "make<C_>()").replace("std::declval<", "make<")
        out.append('namespace p%d { using V_ = %s; using C_ = %s; void probe() { (void)(%s); } }' % (i, v, c, expr))
        lines[len(out)] = (probe, combo)
    return "\n".join(out) + "\n", lines
