"""Shared driver for the library-level explorers (C12..C16): generate the library schema with the tree's sbeppc,
build the explorer for a list of variants in parallel, run each, parse TAB-separated STATS/FAIL/SIG lines."""
import os
import time

from . import cxx, libschema, repo


def gen_dir():
    d = cxx.workdir("lib")
    inc = os.path.join(d, "gen")
    stamp = os.path.join(d, ".generated-" + cxx.src_digest(open(libschema.__file__, "rb").read()))
    if not os.path.exists(stamp):
        with repo.Lock(os.path.join(d, ".lock")):
            if not os.path.exists(stamp):
                libschema.generate(d)
                open(stamp, "w").write("ok")
    return inc


class Variant:
    def __init__(self, tag, cell, defines=(), opt="-O0", extra=(), args=(), compile_sig=None):
        self.tag, self.cell, self.defines, self.opt, self.extra, self.args = tag, cell, list(defines), opt, list(extra), list(args)
        self.compile_sig = compile_sig  # signature to report if this variant does not compile


def build_and_run(rep, name, src_name, variants, run_timeout=1800, build_timeout=1200, includes=()):
    """-> list of (variant, lines) ; lines = list of tab-split records.  Build/run failures are harness errors,
    except that a *compile error* is returned as ('COMPILE-ERROR', log) record for the caller to judge."""
    inc = gen_dir()
    src = os.path.join(cxx.CXXDIR, src_name)
    src_blob = open(src, "rb").read() + open(os.path.join(cxx.CXXDIR, "harness.hpp"), "rb").read()
    wd = cxx.workdir(name)

    def one(v):
        dg = cxx.src_digest(src_blob, v.cell, v.defines, v.opt, v.extra)
        exe = os.path.join(wd, "%s-%s" % (v.tag, dg))
        t0 = time.time()
        if not os.path.exists(exe):
            ok, log = cxx.build(v.cell, [src], exe, includes=[inc] + list(includes), defines=v.defines, opt=v.opt,
                                extra=v.extra, timeout=build_timeout)
            if not ok:
                # a failing static_assert table must not hide what the run-time exploration has to say: build again
                # without the table (explorers that have one honour VERIF_NO_CONSTEXPR) and report both
                ok2, _ = cxx.build(v.cell, [src], exe, includes=[inc] + list(includes), defines=list(v.defines) + ["VERIF_NO_CONSTEXPR"],
                                   opt=v.opt, extra=v.extra, timeout=build_timeout) if b"VERIF_NO_CONSTEXPR" in src_blob else (False, "")
                if not ok2:
                    return v, [["COMPILE-ERROR", log[-3000:]]], time.time() - t0
                rc, out = cxx.sh([exe] + v.args, timeout=run_timeout)
                os.unlink(exe)      # never cached: the digest names the build with the table
                lines = [["COMPILE-ERROR-CONSTEXPR", log[-3000:]]] + [l.split("\t") for l in out.splitlines() if l]
                if rc != 0:
                    lines.append(["RUN-ERROR", "rc=%s" % rc, out[-1500:]])
                return v, lines, time.time() - t0
        rc, out = cxx.sh([exe] + v.args, timeout=run_timeout)
        lines = [l.split("\t") for l in out.splitlines() if l]
        if rc != 0:
            lines.append(["RUN-ERROR", "rc=%s" % rc, out[-1500:]])
        return v, lines, time.time() - t0

    res = cxx.pmap(one, variants)
    return res


def rerun(name, src_name, v):
    """re-run one variant (for determinism / replay)"""
    return build_and_run(None, name, src_name, [v])[0]
