import argparse
import importlib
import json
import os
import sys

from . import repo


def main(argv=None):
    ap = argparse.ArgumentParser(prog="vlib.cli")
    sub = ap.add_subparsers(dest="cmd", required=True)
    c = sub.add_parser("check")
    c.add_argument("pid")
    c.add_argument("--tier", default=os.environ.get("VERIF_TIER", "quick"), choices=["quick", "thorough"])
    c.add_argument("--replay", default=None)
    sub.add_parser("setup")
    a = ap.parse_args(argv)
    os.chdir(repo.VERIF)
    if a.cmd == "setup":
        repo.sbeppc("dbg")
        repo.sbeppc("san")
        from . import libcheck
        libcheck.gen_dir()
        print("setup ok: tree", repo.tree_key())
        return 0
    repo.gc_cache()
    mod = importlib.import_module("vlib.checks." + a.pid.lower())
    replay = json.load(open(a.replay)) if a.replay else None
    return mod.run(a.tier, replay=replay)


if __name__ == "__main__":
    sys.exit(main())
