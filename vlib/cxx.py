"""compile / run helpers; parallel map"""
import concurrent.futures as cf
import hashlib
import os
import subprocess
import sys

from . import repo

CXXDIR = os.path.join(repo.VERIF, "cxx")

# (compiler, standard)   clang spells c++23 as c++2b
ALL_CELLS = [("g++", "c++11"), ("g++", "c++14"), ("g++", "c++17"), ("g++", "c++20"), ("g++", "c++23"),
             ("clang++", "c++11"), ("clang++", "c++14"), ("clang++", "c++17"), ("clang++", "c++20"),
             ("clang++", "c++2b")]
QUICK_CELLS = [("g++", "c++17"), ("clang++", "c++20")]
# one cell per (compiler front end x codec path of sbepp.hpp): the pre-C++20 path selects a byteswap intrinsic per compiler
# (clang / gcc / msvc branches), the C++20 path is bit_cast + reverse; small schemas are run on all four even in the quick tier
CODEC_CELLS = [("g++", "c++17"), ("clang++", "c++14"), ("g++", "c++20"), ("clang++", "c++20")]
FOUR_CELLS = [("g++", "c++11"), ("g++", "c++20"), ("clang++", "c++17"), ("clang++", "c++2b")]


def cell_name(cell):
    return "%s-%s" % (cell[0].replace("++", "xx"), cell[1])


def pmap(fn, items, jobs=None):
    items = list(items)
    if not items:
        return []
    with cf.ThreadPoolExecutor(max_workers=jobs or repo.NPROC) as ex:
        return list(ex.map(fn, items))


def sh(cmd, timeout=None, cwd=None, env=None, input=None):
    """-> (rc or None on timeout, output text)"""
    try:
        r = subprocess.run(cmd, stdout=subprocess.PIPE, stderr=subprocess.STDOUT, timeout=timeout, cwd=cwd,
                           env=env, input=input)
        return r.returncode, r.stdout.decode("utf-8", "replace")
    except subprocess.TimeoutExpired as ex:
        return None, (ex.stdout or b"").decode("utf-8", "replace")


def compile_cmd(cell, srcs, out=None, includes=(), defines=(), opt="-O0", syntax_only=False, extra=(), nowarn=True):
    # -w also turns the *required* narrowing diagnostics of gcc into nothing: checks that decide "compiles" pass nowarn=False
    cmd = [cell[0], "-std=" + cell[1], opt, "-g0"] + (["-w"] if nowarn else []) + ["-I" + repo.SBEPP_SRC, "-I" + CXXDIR]
    if cell[0] == "clang++":
        cmd += ["-ferror-limit=5"]
    else:
        cmd += ["-fmax-errors=5"]
    for i in includes:
        cmd += ["-I" + i]
    for d in defines:
        cmd += ["-D" + d]
    cmd += list(extra)
    if syntax_only:
        cmd += ["-fsyntax-only"] + list(srcs)
    else:
        cmd += list(srcs) + ["-o", out]
    return cmd


def build(cell, srcs, out, includes=(), defines=(), opt="-O0", extra=(), timeout=900, nowarn=True):
    """compile+link; -> (ok, log)"""
    cmd = compile_cmd(cell, srcs, out + ".tmp", includes, defines, opt, False, extra, nowarn)
    rc, log = sh(cmd, timeout=timeout)
    if rc == 0:
        os.replace(out + ".tmp", out)
        return True, log
    return False, log


def syntax(cell, src, includes=(), defines=(), extra=(), timeout=600, nowarn=True):
    rc, log = sh(compile_cmd(cell, [src], None, includes, defines, "-O0", True, extra, nowarn), timeout=timeout)
    return rc == 0, log


def src_digest(*blobs):
    h = hashlib.sha256()
    for b in blobs:
        h.update(b if isinstance(b, bytes) else str(b).encode())
        h.update(b"\0")
    return h.hexdigest()[:16]


def workdir(name):
    """scratch dir for one check under the cache, keyed by the tree"""
    root = os.path.join(repo.CACHE, "work-" + repo.tree_key())
    d = os.path.join(root, name)
    os.makedirs(d, exist_ok=True)
    os.utime(root, None)
    return d


_ICE_PROBE = r"""
#include <type_traits>
constexpr bool w() noexcept { return std::is_constant_evaluated(); }
int main() { if(w()) return 1; return 0; }
"""
_ice_cache = {}


def cell_miscompiles_is_constant_evaluated(cell):
    """clang 14 in -std=c++2b takes `if(wrapper_of_is_constant_evaluated())` at run time (if-consteval bug).  Cells whose
    toolchain fails this probe cannot run code that branches on std::is_constant_evaluated(); pre-C++20 cells pass trivially."""
    if cell in _ice_cache:
        return _ice_cache[cell]
    if cell[1] in ("c++11", "c++14", "c++17"):
        _ice_cache[cell] = False
        return False
    d = workdir("toolchain-probe")
    src = os.path.join(d, "ice_%s.cpp" % cell_name(cell))
    exe = os.path.join(d, "ice_%s" % cell_name(cell))
    with open(src, "w") as fh:
        fh.write(_ICE_PROBE)
    rc, _ = sh([cell[0], "-std=" + cell[1], "-O0", src, "-o", exe])
    bad = False
    if rc == 0:
        rc2, _ = sh([exe])
        bad = rc2 != 0
    _ice_cache[cell] = bad
    return bad
