"""SBE 1.0 layout rules as the sbepp documentation states them, on Python ints.

  * a constant occupies no space
  * a member's offset is its `offset` attribute or the end of the previous non-constant member
  * composite size = end of the last member; blockLength = attribute or end of the last field
  * entries at header + i * wire blockLength; data = length prefix + bytes
"""
from . import ir
from .ir import PRIMS, psize


class RNode:
    def __init__(self, kind, **kw):
        self.kind = kind
        self.size = 0
        self.tname = None      # public schema type name, if any
        self.src = None
        for k, v in kw.items():
            setattr(self, k, v)


class RMember:
    def __init__(self, name, offset, node, src=None):
        self.name, self.offset, self.node, self.src = name, offset, node, src


class RHeaderSlot:
    def __init__(self, name, offset, prim):
        self.name, self.offset, self.prim = name, offset, prim


class RDim:
    """group dimension / message header: named integer slots inside a composite"""

    def __init__(self, comp_node, tname):
        self.node, self.tname, self.size = comp_node, tname, comp_node.size
        self.slots = {}
        for m in comp_node.members:
            if m.node.kind == "scalar":
                self.slots[m.name] = RHeaderSlot(m.name, m.offset, m.node.prim)

    def slot(self, name):
        return self.slots.get(name)


class RData:
    def __init__(self, name, len_prim, elem_prim, tname, src):
        self.name, self.len_prim, self.elem_prim, self.tname, self.src = name, len_prim, elem_prim, tname, src
        self.len_size = psize(len_prim)


class RLevel:
    def __init__(self):
        self.fields = []       # RMember (offset relative to block start)
        self.groups = []       # RGroup
        self.data = []         # RData
        self.block_length = 0  # compiled
        self.min_block_length = 0

    def nonconst_fields(self):
        return [f for f in self.fields if f.node.kind != "const"]


class RGroup:
    def __init__(self, name, dim, level, src):
        self.name, self.dim, self.level, self.src = name, dim, level, src

    @property
    def flat(self):
        return not self.level.groups and not self.level.data


class RMsg:
    def __init__(self, name, id, header, level, src):
        self.name, self.id, self.header, self.level, self.src = name, id, header, level, src


class LayoutError(Exception):
    pass


class Resolver:
    def __init__(self, schema):
        self.s = schema
        self._cache = {}

    # ---- types
    def enc_prim(self, enc):
        """encodingType of enum/set: primitive or a <type> name"""
        if enc in PRIMS:
            return enc
        t = self.s.type_by_name(enc)
        if isinstance(t, ir.T):
            return t.prim
        raise LayoutError("encodingType %r" % enc)

    def const_value(self, t):
        """python value of a constant <type>: int / float / bytes"""
        if t.value_ref is not None:
            en, vn = t.value_ref.split(".", 1)
            e = self.s.type_by_name(en)
            for v in e.values:
                if v[0] == vn:
                    return self.parse_value(v[1], self.enc_prim(e.enc))
            raise LayoutError("valueRef %r" % t.value_ref)
        txt = "" if t.const is None else str(t.const)
        if t.prim == "char":
            n = t.length if t.length is not None else len(txt)
            if n == 1 and t.length in (None, 1):
                return ord(txt[0]) if txt else 0
            return txt.encode("latin-1").ljust(n, b"\0")
        return self.parse_value(txt, t.prim)

    @staticmethod
    def parse_value(txt, prim):
        if PRIMS[prim][3]:
            return float(txt)
        if prim == "char":
            return ord(txt[0]) if len(txt) == 1 and not txt.lstrip("-").isdigit() else (ord(txt) if len(txt) == 1 else int(txt))
        return int(txt)

    def node_of(self, t, inline=True):
        """RNode for an IR type object"""
        if isinstance(t, ir.T):
            presence = t.presence or "required"
            if presence == "constant":
                val = self.const_value(t)
                n = len(val) if isinstance(val, bytes) else 1
                return RNode("const", prim=t.prim, value=val, n=n, src=t, tname=None if inline else t.name)
            length = 1 if t.length is None else int(t.length)
            if length != 1:
                return RNode("array", prim=t.prim, n=length, size=length * psize(t.prim), src=t,
                             tname=None if inline else t.name)
            return RNode("scalar", prim=t.prim, size=psize(t.prim), rep=presence, src=t,
                         tname=None if inline else t.name, builtin=False)
        if isinstance(t, ir.Enum):
            p = self.enc_prim(t.enc)
            return RNode("scalar", prim=p, size=psize(p), rep="enum", src=t, tname=None if inline else t.name, builtin=False)
        if isinstance(t, ir.SetT):
            p = self.enc_prim(t.enc)
            return RNode("scalar", prim=p, size=psize(p), rep="set", src=t, tname=None if inline else t.name, builtin=False)
        if isinstance(t, ir.Ref):
            tt = self.s.type_by_name(t.type)
            if tt is None:
                raise LayoutError("ref to unknown type %r" % t.type)
            return self.node_of(tt, inline=False)
        if isinstance(t, ir.Comp):
            members = []
            off = 0
            for m in t.members:
                n = self.node_of(m)
                if n.kind == "const":
                    members.append(RMember(m.name, None, n, m))
                    continue
                o = off if m.offset is None else int(m.offset)
                members.append(RMember(m.name, o, n, m))
                off = o + n.size
            return RNode("composite", members=members, size=off, src=t, tname=None if inline else t.name)
        raise TypeError(t)

    def public(self, name):
        if name not in self._cache:
            t = self.s.type_by_name(name)
            if t is None:
                raise LayoutError("unknown type %r" % name)
            self._cache[name] = self.node_of(t, inline=False)
        return self._cache[name]

    # ---- levels
    def field_node(self, f):
        if f.type in PRIMS:
            pres = f.presence or "required"
            if pres == "constant":
                en, vn = f.value_ref.split(".", 1)
                e = self.s.type_by_name(en)
                val = [self.parse_value(v[1], self.enc_prim(e.enc)) for v in e.values if v[0] == vn][0]
                return RNode("const", prim=f.type, value=val, n=1, src=f)
            return RNode("scalar", prim=f.type, size=psize(f.type), rep=pres, src=f, builtin=True, tname=f.type)
        n = self.public(f.type)
        t = n.src
        if isinstance(t, ir.Enum) and (f.presence == "constant"):
            en, vn = f.value_ref.split(".", 1)
            e = self.s.type_by_name(en)
            val = [self.parse_value(v[1], self.enc_prim(e.enc)) for v in e.values if v[0] == vn][0]
            return RNode("const", prim=n.prim, value=val, n=1, src=f, enum=t.name)
        return n

    def level(self, lv):
        r = RLevel()
        off = 0
        for f in lv.fields:
            n = self.field_node(f)
            if n.kind == "const":
                r.fields.append(RMember(f.name, None, n, f))
                continue
            o = off if f.offset is None else int(f.offset)
            r.fields.append(RMember(f.name, o, n, f))
            off = o + n.size
        r.min_block_length = off
        r.block_length = off if lv.block_length is None else int(lv.block_length)
        for g in lv.groups:
            dname = g.dim or "groupSizeEncoding"
            dim = RDim(self.public(dname), dname)
            r.groups.append(RGroup(g.name, dim, self.level(g), g))
        for d in lv.data:
            c = self.s.type_by_name(d.type)
            lt = [m for m in c.members if m.name == "length"][0]
            vt = [m for m in c.members if m.name == "varData"][0]
            lp = self.node_of(lt).prim
            vp = self.node_of(vt).prim
            r.data.append(RData(d.name, lp, vp, d.type, d))
        return r

    def message(self, m):
        hn = self.s.header_name()
        hdr = RDim(self.public(hn), hn)
        return RMsg(m.name, int(m.id), hdr, self.level(m), m)

    def messages(self):
        return [self.message(m) for m in self.s.msgs]


def count_levels(level):
    return 1 + sum(count_levels(g.level) for g in level.groups)
