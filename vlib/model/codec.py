"""Reference SBE codec over the resolved layout.  All scalar values are raw bit patterns (unsigned ints of the
primitive's width); floats are carried as their IEEE bit patterns; arrays and data are bytes.

An *instance* of a level is  {"f": {field: value}, "g": {group: [instance, ...]}, "d": {data: bytes}}
where a composite value is a dict {member: value} and constants are absent.
"""
from .ir import psize


def put(buf, off, size, bits, big):
    buf[off:off + size] = int(bits & ((1 << (8 * size)) - 1)).to_bytes(size, "big" if big else "little")


def get(buf, off, size, big):
    return int.from_bytes(bytes(buf[off:off + size]), "big" if big else "little")


class PField:
    def __init__(self, member, off):
        self.member, self.off = member, off           # absolute offset of the member's first byte


class PData:
    def __init__(self, rdata, start, payload):
        self.rdata, self.start, self.payload = rdata, start, payload
        self.end = start + rdata.len_size + len(payload)


class PLevel:
    """a placed message or entry"""

    def __init__(self):
        self.start = 0          # view start (message start / entry start)
        self.hdr = 0            # message header size (0 for entries)
        self.bl = 0             # wire block length
        self.fields = []        # PField (non-constant only)
        self.groups = []        # PGroup
        self.data = []          # PData
        self.end = 0
        self.rlevel = None

    @property
    def block_start(self):
        return self.start + self.hdr

    @property
    def block_end(self):
        return self.start + self.hdr + self.bl


class PGroup:
    def __init__(self, rgroup, start):
        self.rgroup, self.start = rgroup, start
        self.hdr = rgroup.dim.size
        self.bl = 0
        self.entries = []
        self.end = start

    @property
    def n(self):
        return len(self.entries)


def default_bl(path, rlevel):
    return rlevel.block_length


def place_level(rlevel, inst, start, hdr, path, blf):
    p = PLevel()
    p.rlevel, p.start, p.hdr = rlevel, start, hdr
    p.bl = blf(path, rlevel)
    for f in rlevel.fields:
        if f.node.kind != "const":
            p.fields.append(PField(f, p.block_start + f.offset))
    off = p.block_end
    for g in rlevel.groups:
        pg = PGroup(g, off)
        gpath = path + (g.name,)
        pg.bl = blf(gpath, g.level)
        off += pg.hdr
        for e in inst["g"].get(g.name, []):
            pe = place_level(g.level, e, off, 0, gpath, blf)
            pg.entries.append(pe)
            off = pe.end
        pg.end = off
        p.groups.append(pg)
    for d in rlevel.data:
        pd = PData(d, off, bytes(inst["d"].get(d.name, b"")))
        p.data.append(pd)
        off = pd.end
    p.end = off
    return p


def place_message(rmsg, inst, blf=default_bl):
    return place_level(rmsg.level, inst, 0, rmsg.header.size, (), blf)


# ---------------------------------------------------------------- leaves

def leaves(node, off, path, value):
    """yield (path, abs_off, node, value) for scalar and array leaves of a member value"""
    if node.kind == "scalar" or node.kind == "array":
        yield path, off, node, value
    elif node.kind == "composite":
        for m in node.members:
            if m.node.kind == "const":
                continue
            yield from leaves(m.node, off + m.offset, path + (m.name,), None if value is None else value.get(m.name))


def write_member(buf, node, off, value, big):
    for _, o, n, v in leaves(node, off, (), value):
        if v is None:
            continue
        if n.kind == "scalar":
            put(buf, o, n.size, v, big)
        else:
            b = bytes(v)
            assert len(b) == n.size, (len(b), n.size)
            buf[o:o + n.size] = b


def header_values(schema, rmsg, placed):
    """what fill_message_header must write"""
    vals = {"blockLength": placed.bl, "templateId": rmsg.id, "schemaId": int(schema.id), "version": int(schema.version),
            "numGroups": len(rmsg.level.groups), "numVarDataFields": len(rmsg.level.data)}
    return vals


def write_header(buf, dim, start, vals, big):
    for name, v in vals.items():
        s = dim.slot(name)
        if s is not None:
            put(buf, start + s.offset, psize(s.prim), v, big)


def write_level(buf, schema, placed, inst, big):
    for pf in placed.fields:
        v = inst["f"].get(pf.member.name)
        if v is not None:
            write_member(buf, pf.member.node, pf.off, v, big)
    for pg in placed.groups:
        vals = {"blockLength": pg.bl, "numInGroup": pg.n, "numGroups": len(pg.rgroup.level.groups),
                "numVarDataFields": len(pg.rgroup.level.data)}
        write_header(buf, pg.rgroup.dim, pg.start, vals, big)
        for pe, e in zip(pg.entries, inst["g"].get(pg.rgroup.name, [])):
            write_level(buf, schema, pe, e, big)
    for pd in placed.data:
        put(buf, pd.start, pd.rdata.len_size, len(pd.payload), big)
        buf[pd.start + pd.rdata.len_size:pd.end] = pd.payload


def encode(schema, rmsg, inst, blf=default_bl, fill=0x00):
    """-> (bytes, placed).  Bytes not covered by any member hold `fill` (int or callable(offset)->int)."""
    placed = place_message(rmsg, inst, blf)
    n = placed.end
    buf = bytearray((fill(i) if callable(fill) else fill) & 0xff for i in range(n))
    write_header(buf, rmsg.header, 0, header_values(schema, rmsg, placed), schema.big)
    write_level(buf, schema, placed, inst, schema.big)
    return bytes(buf), placed


# ---------------------------------------------------------------- decode (for the model self-check)

def read_member(buf, node, off, big):
    if node.kind == "scalar":
        return get(buf, off, node.size, big)
    if node.kind == "array":
        return bytes(buf[off:off + node.size])
    if node.kind == "composite":
        return {m.name: read_member(buf, m.node, off + m.offset, big) for m in node.members if m.node.kind != "const"}
    raise ValueError(node.kind)


def decode_level(buf, rlevel, start, hdr, bl, big):
    inst = {"f": {}, "g": {}, "d": {}}
    for f in rlevel.fields:
        if f.node.kind != "const":
            inst["f"][f.name] = read_member(buf, f.node, start + hdr + f.offset, big)
    off = start + hdr + bl
    for g in rlevel.groups:
        gbl = get(buf, off + g.dim.slot("blockLength").offset, psize(g.dim.slot("blockLength").prim), big)
        n = get(buf, off + g.dim.slot("numInGroup").offset, psize(g.dim.slot("numInGroup").prim), big)
        off += g.dim.size
        es = []
        for _ in range(n):
            e, off = decode_level(buf, g.level, off, 0, gbl, big)
            es.append(e)
        inst["g"][g.name] = es
    for d in rlevel.data:
        ln = get(buf, off, d.len_size, big)
        inst["d"][d.name] = bytes(buf[off + d.len_size:off + d.len_size + ln])
        off += d.len_size + ln
    return inst, off


def decode(schema, rmsg, buf):
    s = rmsg.header.slot("blockLength")
    bl = get(buf, s.offset, psize(s.prim), schema.big)
    return decode_level(buf, rmsg.level, 0, rmsg.header.size, bl, schema.big)
