"""Schema IR (the generators' input) and its XML rendering.  Independent of sbepp: plain data + SBE 1.0 rules."""
from xml.sax.saxutils import escape, quoteattr

PRIMS = {
    # name: (size, struct code, signed, is_fp, c++ type)
    "char": (1, "b", True, False, "char"),
    "int8": (1, "b", True, False, "std::int8_t"),
    "uint8": (1, "B", False, False, "std::uint8_t"),
    "int16": (2, "h", True, False, "std::int16_t"),
    "uint16": (2, "H", False, False, "std::uint16_t"),
    "int32": (4, "i", True, False, "std::int32_t"),
    "uint32": (4, "I", False, False, "std::uint32_t"),
    "int64": (8, "q", True, False, "std::int64_t"),
    "uint64": (8, "Q", False, False, "std::uint64_t"),
    "float": (4, "f", True, True, "float"),
    "double": (8, "d", True, True, "double"),
}


def psize(p):
    return PRIMS[p][0]


class Node:
    """common attribute bag; every XML attribute is explicit"""
    tag = None

    def __init__(self, **kw):
        for k, v in kw.items():
            setattr(self, k, v)

    def clone(self):
        import copy
        return copy.deepcopy(self)


class T(Node):
    """<type>"""
    tag = "type"

    def __init__(self, name, prim, length=None, presence=None, const=None, value_ref=None, mn=None, mx=None, nl=None,
                 offset=None, since=None, deprecated=None, desc=None, sem=None, char_enc=None):
        self.name, self.prim, self.length, self.presence = name, prim, length, presence
        self.const, self.value_ref, self.mn, self.mx, self.nl = const, value_ref, mn, mx, nl
        self.offset, self.since, self.deprecated, self.desc, self.sem, self.char_enc = offset, since, deprecated, desc, sem, char_enc


class Enum(Node):
    tag = "enum"

    def __init__(self, name, enc, values, offset=None, since=None, deprecated=None, desc=None):
        self.name, self.enc, self.values, self.offset = name, enc, list(values), offset
        self.since, self.deprecated, self.desc = since, deprecated, desc


class SetT(Node):
    tag = "set"

    def __init__(self, name, enc, choices, offset=None, since=None, deprecated=None, desc=None):
        self.name, self.enc, self.choices, self.offset = name, enc, list(choices), offset
        self.since, self.deprecated, self.desc = since, deprecated, desc


class Ref(Node):
    tag = "ref"

    def __init__(self, name, type, offset=None, since=None, deprecated=None):
        self.name, self.type, self.offset, self.since, self.deprecated = name, type, offset, since, deprecated


class Comp(Node):
    tag = "composite"

    def __init__(self, name, members, offset=None, since=None, deprecated=None, desc=None, sem=None):
        self.name, self.members, self.offset = name, list(members), offset
        self.since, self.deprecated, self.desc, self.sem = since, deprecated, desc, sem


class Field(Node):
    def __init__(self, name, id, type, offset=None, presence=None, value_ref=None, since=None, deprecated=None, desc=None):
        self.name, self.id, self.type, self.offset, self.presence, self.value_ref = name, id, type, offset, presence, value_ref
        self.since, self.deprecated, self.desc = since, deprecated, desc


class Data(Node):
    def __init__(self, name, id, type, since=None, deprecated=None, desc=None):
        self.name, self.id, self.type, self.since, self.deprecated, self.desc = name, id, type, since, deprecated, desc


class Group(Node):
    def __init__(self, name, id, fields=(), groups=(), data=(), dim=None, block_length=None, since=None, deprecated=None,
                 desc=None, sem=None):
        self.name, self.id, self.dim, self.block_length = name, id, dim, block_length
        self.fields, self.groups, self.data = list(fields), list(groups), list(data)
        self.since, self.deprecated, self.desc, self.sem = since, deprecated, desc, sem


class Msg(Node):
    def __init__(self, name, id, fields=(), groups=(), data=(), block_length=None, since=None, deprecated=None, desc=None,
                 sem=None):
        self.name, self.id, self.block_length = name, id, block_length
        self.fields, self.groups, self.data = list(fields), list(groups), list(data)
        self.since, self.deprecated, self.desc, self.sem = since, deprecated, desc, sem


class Schema(Node):
    def __init__(self, package, types, msgs, id=1, version=0, byte_order="littleEndian", header_type=None, desc=None,
                 sem_version=None):
        self.package, self.types, self.msgs = package, list(types), list(msgs)
        self.id, self.version, self.byte_order, self.header_type = id, version, byte_order, header_type
        self.desc, self.sem_version = desc, sem_version

    @property
    def big(self):
        return self.byte_order == "bigEndian"

    def type_by_name(self, name):
        for t in self.types:
            if t.name.lower() == name.lower():   # SBE: type lookup is case-insensitive in sbeppc
                return t
        return None

    def header_name(self):
        return self.header_type or "messageHeader"


def std_header(types=("uint16", "uint16", "uint16", "uint16")):
    return Comp("messageHeader", [T("blockLength", types[0]), T("templateId", types[1]), T("schemaId", types[2]),
                                  T("version", types[3])])


def std_group_dim(name="groupSizeEncoding", bl="uint16", num="uint16"):
    return Comp(name, [T("blockLength", bl), T("numInGroup", num)])


def std_var_data(name="varDataEncoding", length="uint32", elem="uint8"):
    return Comp(name, [T("length", length), T("varData", elem, length=0)])


# ------------------------------------------------------------------ XML

def _attrs(pairs):
    return "".join(" %s=%s" % (k, quoteattr(str(v))) for k, v in pairs if v is not None)


def _type_xml(t, ind, out):
    if isinstance(t, T):
        a = _attrs([("name", t.name), ("primitiveType", t.prim), ("length", t.length), ("presence", t.presence),
                    ("valueRef", t.value_ref), ("minValue", t.mn), ("maxValue", t.mx), ("nullValue", t.nl),
                    ("offset", t.offset), ("sinceVersion", t.since), ("deprecated", t.deprecated),
                    ("description", t.desc), ("semanticType", t.sem), ("characterEncoding", t.char_enc)])
        if t.const is not None:
            out.append("%s<type%s>%s</type>" % (ind, a, escape(str(t.const))))
        else:
            out.append("%s<type%s/>" % (ind, a))
    elif isinstance(t, Enum):
        out.append("%s<enum%s>" % (ind, _attrs([("name", t.name), ("encodingType", t.enc), ("offset", t.offset),
                                                 ("sinceVersion", t.since), ("deprecated", t.deprecated),
                                                 ("description", t.desc)])))
        for v in t.values:
            name, val = v[0], v[1]
            extra = v[2] if len(v) > 2 else {}
            out.append("%s  <validValue%s>%s</validValue>" % (ind, _attrs([("name", name)] + sorted(extra.items())), escape(str(val))))
        out.append("%s</enum>" % ind)
    elif isinstance(t, SetT):
        out.append("%s<set%s>" % (ind, _attrs([("name", t.name), ("encodingType", t.enc), ("offset", t.offset),
                                                ("sinceVersion", t.since), ("deprecated", t.deprecated),
                                                ("description", t.desc)])))
        for c in t.choices:
            name, idx = c[0], c[1]
            extra = c[2] if len(c) > 2 else {}
            out.append("%s  <choice%s>%s</choice>" % (ind, _attrs([("name", name)] + sorted(extra.items())), idx))
        out.append("%s</set>" % ind)
    elif isinstance(t, Ref):
        out.append("%s<ref%s/>" % (ind, _attrs([("name", t.name), ("type", t.type), ("offset", t.offset),
                                                 ("sinceVersion", t.since), ("deprecated", t.deprecated)])))
    elif isinstance(t, Comp):
        out.append("%s<composite%s>" % (ind, _attrs([("name", t.name), ("offset", t.offset), ("sinceVersion", t.since),
                                                      ("deprecated", t.deprecated), ("description", t.desc),
                                                      ("semanticType", t.sem)])))
        for m in t.members:
            _type_xml(m, ind + "  ", out)
        out.append("%s</composite>" % ind)
    else:
        raise TypeError(t)


def _level_xml(level, ind, out):
    late = []
    fields = level.fields
    if getattr(level, "_field_after_groups", False) and fields:
        fields, late = fields[:-1], fields[-1:]      # C08: a field rendered after the groups (member order rule)
    _fields_xml(fields, ind, out)
    _groups_data_xml(level, ind, out, late)


def _fields_xml(fields, ind, out):
    for f in fields:
        out.append("%s<field%s/>" % (ind, _attrs([("name", f.name), ("id", f.id), ("type", f.type), ("offset", f.offset),
                                                   ("presence", f.presence), ("valueRef", f.value_ref),
                                                   ("sinceVersion", f.since), ("deprecated", f.deprecated),
                                                   ("description", f.desc)])))


def _groups_data_xml(level, ind, out, late_fields=()):
    for g in level.groups:
        out.append("%s<group%s>" % (ind, _attrs([("name", g.name), ("id", g.id), ("dimensionType", g.dim),
                                                  ("blockLength", g.block_length), ("sinceVersion", g.since),
                                                  ("deprecated", g.deprecated), ("description", g.desc),
                                                  ("semanticType", g.sem)])))
        _level_xml(g, ind + "  ", out)
        out.append("%s</group>" % ind)
    _fields_xml(late_fields, ind, out)
    for d in level.data:
        out.append("%s<data%s/>" % (ind, _attrs([("name", d.name), ("id", d.id), ("type", d.type),
                                                  ("sinceVersion", d.since), ("deprecated", d.deprecated),
                                                  ("description", d.desc)])))


def to_xml(s):
    out = ['<?xml version="1.0" encoding="UTF-8"?>']
    out.append('<sbe:messageSchema xmlns:sbe="http://fixprotocol.io/2016/sbe"%s>' % _attrs(
        [("package", getattr(s, "xml_package", None) or s.package), ("id", s.id), ("version", s.version), ("semanticVersion", s.sem_version),
         ("description", s.desc), ("byteOrder", s.byte_order), ("headerType", s.header_type)]))
    out.append("  <types>")
    for t in s.types:
        _type_xml(t, "    ", out)
    out.append("  </types>")
    for m in s.msgs:
        out.append("  <sbe:message%s>" % _attrs([("name", m.name), ("id", m.id), ("blockLength", m.block_length),
                                                  ("sinceVersion", m.since), ("deprecated", m.deprecated),
                                                  ("description", m.desc), ("semanticType", m.sem)]))
        _level_xml(m, "    ", out)
        out.append("  </sbe:message>")
    out.append("</sbe:messageSchema>")
    return "\n".join(out) + "\n"
