#!/usr/bin/env python3
"""prints the prompt given to a mutation sub-agent for one property (contains nothing from /verif but the property text)"""
import json, sys
pid, tag = sys.argv[1], sys.argv[2]
USED = {
 "C01": "truncating the flat group size product to the numInGroup type; filling numVarDataFields with the group count; advancing the validator's running offset by += instead of = for composite members with explicit offsets; a wrong row in the get_underlying_size table used for the cursor accessors' running offset",
 "C02": "advancing the validator's running offset by += instead of = for composite members with explicit offsets; deriving the accessor of the 3rd+ sibling group from the first group; messages_compiler caching an uninitialised byte order for the non-cursor field accessors; flat_group_base::end() built as begin() + difference_type(size()) (used twice already); a wrong row (double) in the get_underlying_size table",
 "C03": "using the field's own presence attribute instead of the actual presence when deciding whether an entry is constant-only; emitting the ordinary (sizeof-advancing) cursor accessor for a last field of built-in primitive type; member-less visit_children advancing with += block_length instead of level start + block length (used three times already, do NOT use visit_children of member-less levels again); size_bytes_checked_visitor::set_group_block_length returning the new value so the parent block length is not restored (a size_bytes_checked matter; pick something that affects getters / size_bytes / cursors / visit instead)",
 "C04": "nested group cursor_subrange(c, pos) passing size() as the length; the cursor accessors' running offset ignoring the gap of a custom offset on a built-in-typed field; using the field's own presence attribute when deciding whether an entry is constant-only; input_iterator::operator* in the release (#else) branch passing cursor->pointer() so that the member-less entry constructor no longer advances the cursor",
 "C05": "typing the trait-level size_bytes count parameters with the blockLength type; locating the 3rd+ <data> member after the first data member; the nested-group header term of group_traits::size_bytes using the parent dimension size",
 "C06": "saving the parent group's block length after it was overwritten in size_bytes_checked's on_group; member-less visit_children advancing with += block_length; an early-out in on_group when the wire blockLength is 0; the up-front header-room guard size < header_size turned into <=",
 "C07": "the 'previous view' lambda calling NAME() unqualified so that a member named like a local clashes; registering the <data> include dependency under the reference's spelling instead of the composite's name; the <group>_entry clash check of names_generator looking in the wrong name set",
 "C08": "value_fits_into_type parsing uint32 as uint64; is_sbe_symbolic_name skipping the first character; treating an explicit offset=0 on a composite element as absent (value_or(0))",
 "C09": "validate_data_header consulting the group-header cache; passing the include chain to the nested parser with std::move; get_actual_presence no longer forcing set-typed fields to required, so a constant set field reaches unordered_map::at",
 "C10": "re-introducing sizeof(length)+size() overflow in dynamic_array_ref::data_checked; static_array_ref::raw() dropping the end pointer; SBEPP_SIZE_CHECK testing begin < end instead of <=; cursor::set_last_value checking against the view start instead of the cursor pointer",
 "C11": "guarding the last-enum / last-set cursor setter with cursor_compatible instead of cursor_writeable (pick something that is NOT a cursor setter guard); the cursor getter of non-first groups returning a view typed with the message byte type instead of the cursor byte type",
 "C12": "casting the block length to the group's difference_type in the iterator's operator+=; building end() as begin()+difference_type(size()); ordering operators of random_access_iterator defined through the signed difference",
 "C13": "erase(first,last) copying new_size elements instead of the tail; resize(count,value) filling count elements from the old end; insert(pos,count,value) shifting the tail with a forward std::copy (visible only in constant evaluation); assign_string(const char*) copying the terminating NUL as well",
 "C14": "the constant-evaluation branch of string_length counting the terminator; pad() skipping the single NUL when exactly one element is left; assign(first,last) calling std::distance before the copy (breaks single-pass iterators)",
 "C15": "casting after the shift (static_cast<T>(b << n) / static_cast<T>(1 << n)) in the choice setter or getter; operator== comparing *lhs == *lhs",
 "C16": "rewriting <=, >, >= of pre-C++20 optionals in terms of <; treating every NaN as null for floating-point optionals; operator<=> comparing two nulls by representation (NaN <=> NaN)",
 "C17": "filling a group's numVarDataFields with the nested group count; typing fill_group_header's count parameter with the blockLength type; ref-typed numGroups/numVarDataFields no longer recognised as counters",
 "C18": "set choice since_version taken from the enclosing set; type_traits of the built-in optional types reporting presence required; a wrong row (float max for double) in the default min/max/null literal tables of types_compiler",
 "C19": "member-less visit_children advancing the cursor with += block_length; visit_children of a composite reporting constant members; the generated by-tag accessor taking its argument pack by value so that a plain cursor is copied; composite visit_children joined with | instead of ||",
 "C20": "write_file checking only operator<< and letting the destructor close the file; write_file checking only rdbuf()->close(); write_file skipping files whose existing content starts with the new content",
}

p = [json.loads(l) for l in open('/verif/properties.jsonl') if json.loads(l)['id'] == pid][0]
wt = "/tmp/mut_%s" % tag
USED_IDEA = USED.get(pid, "(none yet)")
print(f"""You are helping to evaluate a verification harness for the C++ project OleksandrKvl/sbepp (header-only FIX Simple Binary Encoding library `sbepp/src/sbepp/sbepp.hpp` plus the schema compiler `sbeppc` under `sbeppc/src/sbepp/sbeppc/`, which turns an SBE XML schema into C++ headers). Your job: produce ONE realistic, subtle code change ("mutant") to the project that BREAKS the semantic property below while the project still compiles and its whole existing test suite still passes — plus a small demonstration program/test that fails with your change and passes without it.

PROPERTY {p['id']}: {p['title']}
Statement: {p['statement']}
Quantified over: {p['quantifier']['text']}
Code it is anchored in: {', '.join(p['anchors']['files'])}

RULES
- Work ONLY in your own scratch git worktree {wt} (create it with: git -C /repo worktree add {wt} HEAD). Never edit anything under /repo or /verif, and do not read /verif at all.
- Build + run the existing test suite in the worktree exactly like this (takes ~2 min; use -j8):
    cmake -G Ninja -S {wt} -B {wt}/_build -DCMAKE_BUILD_TYPE=RelWithDebInfo -DCMAKE_CXX_FLAGS=-Wno-error -DSBEPP_BUILD_TESTS=ON -DSBEPP_BUILD_SBEPPC=ON -DSBEPP_DEV_MODE=ON -DSBEPP_SEPARATE_TESTS=ON -DCMAKE_PREFIX_PATH=/root/miniconda > /dev/null
    cmake --build {wt}/_build -j8 2>&1 | tail -2
    ctest --test-dir {wt}/_build -j8 --timeout 900 2>&1 | tail -3        # must report 100% tests passed (4311 tests)
  The built compiler is {wt}/_build/sbeppc/sbeppc (usage: sbeppc --output-dir <dir> [--schema-name <name>] <schema.xml>); generated headers need -I{wt}/sbepp/src and -I<dir>. Example schemas are in {wt}/test/schemas/. There is no network; use only what is installed (g++ 12, clang++ 14, cmake, ninja, python3).
- The change must be the kind of thing a maintainer could plausibly write (a refactoring slip, a wrong operand, an off-by-one, a wrong variable, a dropped case, a cast in the wrong place, two sites that each look fine alone) — NOT a deliberate sabotage like `if(x==42)`, not a deleted feature, and not something ordinary use would expose at once. Prefer a defect that needs something SPECIFIC to manifest: an unusual but valid schema shape (custom offsets, explicit blockLength, big-endian, an unusual header/dimension integer type, constants, nested groups, zero-length things), a particular operation sequence or state, a particular value class (negative, max, NaN, high bit), a particular language standard. Keep the diff small (a few lines).
- Earlier rounds already used these ideas for this property, so pick something in a DIFFERENT part of the code / a different mechanism: {USED_IDEA}.
- The existing test suite MUST still pass with your change (run it; if it fails, pick another change). 
- Write a demonstration: a small self-contained C++ program (or shell script driving sbeppc + a C++ program) that exits 0 on the ORIGINAL code and non-zero (or prints a clear mismatch) with your change. Verify both outcomes yourself (you can check the original behaviour using /repo's own headers or by `git stash` in your worktree).

DELIVERABLES — put them in the directory {wt}_out/ (create it):
  patch.diff   : `git -C {wt} diff` of your change (must apply with `git apply` to a clean checkout of /repo HEAD)
  demo.sh      : script taking the source tree root as $1 (e.g. /repo or {wt}) that builds what it needs under a temp dir and exits 0 iff the property holds for that tree; plus any demo sources it uses (e.g. demo.cpp, demo.xml) in the same directory
  notes.md     : 5-10 lines: what the change is, which part of the property it breaks, what specific input/sequence/configuration is needed to see it, and the exact commands you ran with their outcomes (test suite result with the change; demo result with and without the change)
When done, remove your build directory ({wt}/_build) to save disk but leave the worktree and {wt}_out in place. Reply with a short summary (what you changed, what it needs to manifest, confirmation that the suite passed and the demo discriminates).""")
