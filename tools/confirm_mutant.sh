#!/bin/bash
# usage: confirm_mutant.sh <tag> <property> ; confirms an agent's mutant in its scratch worktree /tmp/mut_<tag>:
#   patch applies to /repo HEAD, tree builds, the repository's test suite passes, demo passes on /repo and fails on the mutant.
# Writes /verif/seeded/<tag>/{patch.diff,demo*,notes.md,meta.json} and removes the worktree.
set -u
tag=$1; prop=$2
wt=/tmp/mut_$tag; out=/tmp/mut_${tag}_out; dst=/verif/seeded/$tag
[ -f $out/patch.diff ] || { echo "no patch"; exit 2; }
mkdir -p $dst
# fresh worktree from /repo HEAD with only the patch
git -C /repo worktree remove --force $wt >/dev/null 2>&1
git -C /repo worktree prune
git -C /repo worktree add $wt HEAD >/dev/null 2>&1 || { echo "worktree failed"; exit 2; }
if ! git -C $wt apply $out/patch.diff; then echo "PATCH-DOES-NOT-APPLY"; git -C /repo worktree remove --force $wt; exit 3; fi
cmake -G Ninja -S $wt -B $wt/_build -DCMAKE_BUILD_TYPE=RelWithDebInfo -DCMAKE_CXX_FLAGS=-Wno-error -DSBEPP_BUILD_TESTS=ON -DSBEPP_BUILD_SBEPPC=ON -DSBEPP_DEV_MODE=ON -DSBEPP_SEPARATE_TESTS=ON -DCMAKE_PREFIX_PATH=/root/miniconda > /dev/null 2>&1
cmake --build $wt/_build -j${JOBS:-12} > $dst/build.log 2>&1; brc=$?
suite="not-run"
if [ $brc -eq 0 ]; then suite=$(ctest --test-dir $wt/_build -j${JOBS:-12} --timeout 900 2>&1 | grep "tests passed" | head -1); fi
cp $out/patch.diff $dst/; cp $out/demo* $dst/ 2>/dev/null; cp $out/notes.md $dst/ 2>/dev/null
( cd $out && SBEPPC=$wt/_build/sbeppc/sbeppc timeout 900 bash ./demo.sh $wt > $dst/demo_mutant.log 2>&1 ); dm=$?
( cd $out && SBEPPC=/repo/_build/sbeppc/sbeppc timeout 900 bash ./demo.sh /repo > $dst/demo_orig.log 2>&1 ); do_=$?
python3 - "$tag" "$prop" "$brc" "$suite" "$dm" "$do_" <<'PY'
import json, sys, subprocess
tag, prop, brc, suite, dm, do_ = sys.argv[1:]
meta = {"id": tag, "property": prop, "build_rc_with_patch": int(brc), "repo_test_suite_with_patch": suite,
        "demo_exit_on_mutant": int(dm), "demo_exit_on_original": int(do_),
        "confirmed": int(brc) == 0 and "100% tests passed" in suite and int(dm) != 0 and int(do_) == 0,
        "repo_head": subprocess.run(["git", "-C", "/repo", "rev-parse", "--short", "HEAD"], capture_output=True, text=True).stdout.strip(),
        "ran": "tools/confirm_mutant.sh: fresh worktree of /repo HEAD + patch.diff; cmake build; ctest; demo.sh on /repo and on the worktree"}
json.dump(meta, open("/verif/seeded/%s/meta.json" % tag, "w"), indent=1)
print(json.dumps(meta))
PY
rm -f $dst/build.log
git -C /repo worktree remove --force $wt; git -C /repo worktree prune; rm -rf $out
