#!/bin/bash
# runs every registered check's quick (or $1) tier on /repo as it is; prints one line per check
tier=${1:-quick}
cd /verif
for id in $(python3 -c "import json;print(' '.join(c['property_id'] for c in json.load(open('MANIFEST.json'))['checks']))"); do
  s=$(date +%s); out=$(python3 -m vlib.cli check $id --tier $tier 2>&1); rc=$?; e=$(date +%s)
  echo "$id rc=$rc $((e-s))s viol=$(echo "$out" | grep -c '^VIOLATION') known=$(echo "$out" | grep -c '^KNOWN-FINDING') harness=$(echo "$out" | grep -c '^HARNESS-ERROR')"
  if [ $rc -ne 0 ]; then echo "$out" | grep -A3 "^VIOLATION\|^HARNESS" | head -12 | cut -c1-300; fi
done
