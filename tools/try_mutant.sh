#!/bin/bash
# usage: try_mutant.sh <seeded id> <check ids...> : runs the quick checks against a scratch worktree of /repo HEAD with the
# seeded patch applied (VERIF_REPO), so that nothing else running against /repo is disturbed.  Equivalent to
# `git -C /repo apply patch; ./check ..; git -C /repo checkout -- .` (the cache key is the tree content).
id=$1; shift
wt=/tmp/try_$id
git -C /repo worktree remove --force $wt >/dev/null 2>&1; git -C /repo worktree prune
git -C /repo worktree add $wt HEAD >/dev/null 2>&1 || { echo "worktree failed"; exit 2; }
git -C $wt apply /verif/seeded/$id/patch.diff || { echo "patch does not apply"; git -C /repo worktree remove --force $wt; exit 2; }
cd /verif
for c in "$@"; do
  out=$(VERIF_REPO=$wt VERIF_NO_EVIDENCE=1 python3 -m vlib.cli check $c --tier ${TIER:-quick} 2>&1); rc=$?
  nv=$(echo "$out" | grep -c "^VIOLATION")
  echo "== $id vs $c: exit=$rc violations_printed=$nv"
  echo "$(date -u +%FT%TZ) verif=$(git -C /verif rev-parse --short HEAD) check=$c tier=${TIER:-quick} exit=$rc violation_lines=$nv first_signature=$(echo "$out" | grep -m1 'signature:' | cut -c14-160)" >> /verif/seeded/$id/detection.txt
  echo "$out" | grep -A2 "^VIOLATION" | head -8 | cut -c1-300
done
git -C /repo worktree remove --force $wt; git -C /repo worktree prune
