#!/bin/bash
# usage: try_mutant.sh <seeded id> <check ids...> : applies the seeded patch to /repo, runs the quick checks, reverts.
id=$1; shift
cd /verif
git -C /repo apply /verif/seeded/$id/patch.diff || { echo "patch does not apply"; exit 2; }
for c in "$@"; do
  out=$(./check $c 2>&1); rc=$?
  nv=$(echo "$out" | grep -c "^VIOLATION")
  echo "== $id vs $c: exit=$rc violations_printed=$nv"
  echo "$(date -u +%FT%TZ) verif=$(git -C /verif rev-parse --short HEAD) check=$c tier=quick exit=$rc violation_lines=$nv first_signature=$(echo "$out" | grep -m1 'signature:' | cut -c14-160)" >> /verif/seeded/$id/detection.txt
  echo "$out" | grep -A2 "^VIOLATION" | head -8 | cut -c1-300
done
git -C /repo checkout -- .
git -C /repo status --short | grep -v _build
