#!/usr/bin/env python3
"""usage: set_needs.py <seeded id> <text> : records what a seeded change needs in order to manifest in seeded/<id>/meta.json"""
import json, sys
f = '/verif/seeded/%s/meta.json' % sys.argv[1]
m = json.load(open(f)); m["needs_to_manifest"] = sys.argv[2]; json.dump(m, open(f, 'w'), indent=1)
