#!/bin/bash
# runs every thorough tier end-to-end, one after the other; copies each evidence file to evidence/thorough/
cd /verif; mkdir -p evidence/thorough .cache
for id in ${@:-C13 C14 C15 C16 C12 C18 C08 C20 C17 C02 C03 C05 C01 C19 C11 C06 C04 C10 C09 C07}; do
  s=$(date +%s); out=$(python3 -m vlib.cli check $id --tier thorough 2>&1); rc=$?; e=$(date +%s)
  echo "$id rc=$rc $((e-s))s viol=$(echo "$out" | grep -c '^VIOLATION') known=$(echo "$out" | grep -c '^KNOWN-FINDING') harness=$(echo "$out" | grep -c '^HARNESS-ERROR') caps=$(grep -o '"caps_hit"' evidence/$id.json | wc -l)"
  echo "$out" | grep -A3 "^VIOLATION\|^HARNESS" | head -12 | cut -c1-300
  cp evidence/$id.json evidence/thorough/$id.json
done
