#!/bin/bash
# usage: round.sh <tag>:<PROP> ... : for each agent deliverable in /tmp/mut_<tag>_out: confirm_mutant.sh, then try_mutant.sh against the property's check
cd /verif
for t in "$@"; do tag=${t%%:*}; prop=${t##*:}
  JOBS=8 tools/confirm_mutant.sh $tag $prop 2>&1 | tail -1 | cut -c1-400
  if python3 -c "import json,sys;sys.exit(0 if json.load(open('/verif/seeded/$tag/meta.json'))['confirmed'] else 1)"; then
    tools/try_mutant.sh $tag $prop
  else echo "NOT CONFIRMED $tag"; fi
done
