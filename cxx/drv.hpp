// Shared run-time helpers of the generated schema drivers (see vlib/gen/*.py).
#pragma once
#include <sbepp/sbepp.hpp>
#include "harness.hpp"
#include <cstdint>
#include <cstring>
#include <iostream>
#include <sstream>
#include <string>
#include <type_traits>
#include <vector>

namespace drv
{
using u64 = std::uint64_t;

// ------------------------------------------------------------ value <-> bit pattern
template<typename T>
typename std::enable_if<std::is_floating_point<T>::value, u64>::type raw_bits(T v)
{
    typename sbepp::detail::fp_underlying_type<T>::type u;
    std::memcpy(&u, &v, sizeof(v));
    return u;
}
template<typename T>
typename std::enable_if<std::is_integral<T>::value, u64>::type raw_bits(T v)
{
    return (u64)(typename std::make_unsigned<T>::type)v;
}
template<typename T>
typename std::enable_if<std::is_floating_point<T>::value, T>::type from_bits(u64 b)
{
    typename sbepp::detail::fp_underlying_type<T>::type u = (typename sbepp::detail::fp_underlying_type<T>::type)b;
    T v;
    std::memcpy(&v, &u, sizeof(v));
    return v;
}
template<typename T>
typename std::enable_if<std::is_integral<T>::value, T>::type from_bits(u64 b)
{
    return (T)b;
}

// representation type -> bits
template<typename V>
typename std::enable_if<sbepp::is_enum<V>::value, u64>::type bits_of(V v)
{
    return raw_bits(sbepp::to_underlying(v));
}
template<typename V>
typename std::enable_if<sbepp::is_set<V>::value, u64>::type bits_of(V v)
{
    return raw_bits(*v);
}
template<typename V>
typename std::enable_if<sbepp::is_non_array_type<V>::value, u64>::type bits_of(V v)
{
    return raw_bits(v.value());
}
template<typename V>
typename std::enable_if<std::is_arithmetic<V>::value, u64>::type bits_of(V v) // constants are plain values
{
    return raw_bits(v);
}

template<typename V>
typename std::enable_if<sbepp::is_enum<V>::value, V>::type make(u64 b)
{
    return static_cast<V>(from_bits<typename std::underlying_type<V>::type>(b));
}
template<typename V>
typename std::enable_if<sbepp::is_set<V>::value, V>::type make(u64 b)
{
    using U = typename std::decay<decltype(*std::declval<V>())>::type;
    return V{from_bits<U>(b)};
}
template<typename V>
typename std::enable_if<sbepp::is_non_array_type<V>::value, V>::type make(u64 b)
{
    return V{from_bits<typename V::value_type>(b)};
}

template<typename V>
constexpr std::size_t width_of()
{
    return sizeof(V);
}

// ------------------------------------------------------------ text
inline void hex_append(std::string& s, u64 v, std::size_t bytes)
{
    static const char d[] = "0123456789abcdef";
    for(std::size_t i = bytes; i > 0; i--)
    {
        unsigned char b = (unsigned char)(v >> (8 * (i - 1)));
        s += d[b >> 4];
        s += d[b & 15];
    }
}
inline void hex_bytes(std::string& s, const void* p, std::size_t n)
{
    static const char d[] = "0123456789abcdef";
    auto q = static_cast<const unsigned char*>(p);
    for(std::size_t i = 0; i < n; i++)
    {
        s += d[q[i] >> 4];
        s += d[q[i] & 15];
    }
}
inline std::vector<unsigned char> unhex(const std::string& h)
{
    std::vector<unsigned char> v;
    auto nib = [](char c) -> int { return c <= '9' ? c - '0' : (c | 32) - 'a' + 10; };
    for(std::size_t i = 0; i + 1 < h.size(); i += 2)
        v.push_back((unsigned char)(nib(h[i]) * 16 + nib(h[i + 1])));
    return v;
}

struct Out
{
    std::string s;
    const unsigned char* base = nullptr;
    bool show_cur = true, show_sz = true; // which observations belong to the property being checked
    std::string choices = "0", styles = "0"; // cyclic wrapper / iteration-style choice strings (C04 traversals)
    std::size_t ci = 0, si = 0;
    int choice()
    {
        return choices[ci++ % choices.size()] - '0';
    }
    int style()
    {
        return styles[si++ % styles.size()] - '0';
    }
    void sz(u64 v)
    {
        if(show_sz)
        {
            s += " sz=";
            s += std::to_string(v);
        }
    }
    template<typename P>
    void curline(P p) // a line of its own: "  ^off"
    {
        if(show_cur)
        {
            s += "  ";
            cur(p);
            s += '\n';
        }
    }
    template<typename P>
    void curinl(P p) // inline "  ^off"
    {
        if(show_cur)
        {
            s += "  ";
            cur(p);
        }
    }
    void key(const std::string& k)
    {
        s += k;
    }
    void val(const std::string& k, u64 bits, std::size_t bytes)
    {
        s += k;
        s += '=';
        hex_append(s, bits, bytes);
        s += '\n';
    }
    void num(const char* k, u64 v)
    {
        s += k;
        s += std::to_string(v);
    }
    template<typename P>
    void at(P p)
    {
        s += '@';
        s += std::to_string((long)((const unsigned char*)p - base));
    }
    template<typename P>
    void cur(P p)
    {
        s += '^';
        s += std::to_string((long)((const unsigned char*)p - base));
    }
    void nl()
    {
        s += '\n';
    }
};

// token reader over one whitespace separated line
struct In
{
    std::vector<std::string> t;
    std::size_t i = 0;
    explicit In(const std::string& line)
    {
        std::istringstream is(line);
        std::string w;
        while(is >> w)
            t.push_back(w);
    }
    bool more() const
    {
        return i < t.size();
    }
    const std::string& str()
    {
        static const std::string empty;
        if(i >= t.size())
        {
            std::fprintf(stderr, "HARNESS-ERROR: script underrun\n");
            std::exit(72);
        }
        return t[i++];
    }
    u64 num()
    {
        return std::stoull(str(), nullptr, 16);
    }
    std::vector<unsigned char> bytes() // "-" is the empty string
    {
        const std::string& w = str();
        if(w == "-")
            return {};
        return unhex(w);
    }
};

// shadow buffer for the encode walkers: expected writes are applied to `want`, real ops to `real`
struct Chk
{
    unsigned char* real = nullptr;
    std::vector<unsigned char> want;
    std::size_t cap = 0;
    std::string first_fail;
    long points = 0;
    // "off:hex;off:hex" or "-"
    void expect(In& in)
    {
        const std::string& w = in.str();
        if(w == "-")
            return;
        std::size_t p = 0;
        while(p < w.size())
        {
            std::size_t c = w.find(':', p), e = w.find(';', p);
            if(e == std::string::npos)
                e = w.size();
            std::size_t off = std::stoul(w.substr(p, c - p));
            auto b = unhex(w.substr(c + 1, e - c - 1));
            if(off + b.size() > cap)
            {
                std::fprintf(stderr, "HARNESS-ERROR: expected write beyond capacity\n");
                std::exit(72);
            }
            std::memcpy(want.data() + off, b.data(), b.size());
            p = e + 1;
        }
    }
    void note(const std::string& what)
    {
        if(first_fail.empty())
            first_fail = what;
    }
    void point(const std::string& label)
    {
        points++;
        if(!first_fail.empty())
            return;
        if(std::memcmp(real, want.data(), cap) != 0)
        {
            first_fail = label + " real=";
            hex_bytes(first_fail, real, cap);
            first_fail += " want=";
            hex_bytes(first_fail, want.data(), cap);
        }
    }
};

} // namespace drv
