// C02 constant-evaluation part (C++20 and later): bit pattern of a representation value inside a constant expression
#pragma once
#include <sbepp/sbepp.hpp>
#include <bit>
#include <cstdint>
#include <type_traits>

namespace cexpr
{
using u64 = std::uint64_t;

template<typename T>
constexpr u64 raw(T v)
{
    if constexpr(std::is_same_v<T, float>)
        return std::bit_cast<std::uint32_t>(v);
    else if constexpr(std::is_same_v<T, double>)
        return std::bit_cast<std::uint64_t>(v);
    else
        return static_cast<u64>(static_cast<std::make_unsigned_t<T>>(v));
}

template<typename V>
constexpr u64 bits(V v)
{
    if constexpr(sbepp::is_enum<V>::value)
        return raw(sbepp::to_underlying(v));
    else if constexpr(sbepp::is_set<V>::value)
        return raw(*v);
    else if constexpr(sbepp::is_non_array_type<V>::value)
        return raw(v.value());
    else
        return raw(v);
}

// n-th entry of a (flat or nested) group by forward iteration
template<typename G>
constexpr typename G::value_type nth(G g, std::size_t n)
{
    auto it = g.begin();
    for(std::size_t i = 0; i < n; i++)
        ++it;
    return *it;
}
} // namespace cexpr
