// C16: optional / required scalars. For each primitive x {built-in, generated implicit, generated explicit}:
// all ordered pairs from the type's boundary set x {has_value, bool, value_or, in_range, ==, !=, <, <=, >, >=, <=>}
// against the documented rules; default / nullopt construction; min/max/null statics against the SBE table.
// -DPART=0: everything except ordering of floating-point optionals; -DPART=1: only ordering of FP optionals
// (kept apart because it may not compile in C++20 cells, which is then the finding).
#include <sbepp/sbepp.hpp>
#define STR2(x) #x
#define STR(x) STR2(x)
#define HDR2(x) <x/x.hpp>
#include HDR2(SCHEMA)
#include "harness.hpp"
#include <cmath>
#include <limits>
#include <map>
#include <string>
#include <vector>
#include "lib_expect.hpp" // generated: explicit min/max/null of the *_x types

VH_DEFINE_ASSERT_HANDLER

#ifndef PART
#    define PART 0
#endif

static std::map<std::string, long> g_sigs;
static long g_printed = 0, g_tr = 0, g_states = 0;

template<typename T>
std::string bits_of(T v)
{
    unsigned char b[sizeof(T)];
    std::memcpy(b, &v, sizeof(T));
    std::string s = "0x";
    for(std::size_t i = sizeof(T); i > 0; i--)
    {
        static const char d[] = "0123456789abcdef";
        s += d[b[i - 1] >> 4];
        s += d[b[i - 1] & 15];
    }
    return s;
}

static void fail(const char* cfg, const std::string& sig, const std::string& state, const std::string& op,
                 const std::string& detail)
{
    if(g_sigs[sig]++ < 2 && g_printed++ < 300)
        std::printf("FAIL\t%s\t%s\t%s\t%s\tVALUE\t%s\n", sig.c_str(), cfg, state.c_str(), op.c_str(), detail.c_str());
}

template<typename T>
bool is_nan(T v)
{
    return v != v;
}

template<typename T>
bool same_bits_or_both_nan(T a, T b)
{
    return std::memcmp(&a, &b, sizeof(T)) == 0 || (is_nan(a) && is_nan(b));
}

template<typename T, bool FP = std::is_floating_point<T>::value>
struct boundary;

template<typename T>
struct boundary<T, false>
{
    static std::vector<T> get(T mn, T mx, T nl)
    {
        using L = std::numeric_limits<T>;
        std::vector<T> v{T(0), T(1), mn, mx, nl, L::min(), L::max(), T(L::max() - 1), T(L::min() + 1), T(mn + 1), T(mx - 1)};
        if(std::is_signed<T>::value)
            v.push_back(T(-1));
        if(mx != L::max())
            v.push_back(T(mx + 1));
        if(mn != L::min())
            v.push_back(T(mn - 1));
        // dedupe
        std::vector<T> u;
        for(T x : v)
        {
            bool f = false;
            for(T y : u)
                f = f || x == y;
            if(!f)
                u.push_back(x);
        }
        return u;
    }
};

template<typename T>
struct boundary<T, true>
{
    static T from_bits(unsigned long long b)
    {
        typename sbepp::detail::fp_underlying_type<T>::type u = (typename sbepp::detail::fp_underlying_type<T>::type)b;
        T r;
        std::memcpy(&r, &u, sizeof(T));
        return r;
    }
    static std::vector<T> get(T mn, T mx, T nl)
    {
        using L = std::numeric_limits<T>;
        const bool f32 = sizeof(T) == 4;
        std::vector<T> v{T(0), -T(0), T(1), T(-1), mn, mx, nl, L::denorm_min(), L::min(), L::max(), L::lowest(),
                         L::infinity(), -L::infinity(), L::quiet_NaN(),
                         from_bits(f32 ? 0x7fc12345ull : 0x7ff8000000012345ull),  // quiet NaN with payload
                         from_bits(f32 ? 0xffc00001ull : 0xfff8000000000001ull),  // negative quiet NaN
                         from_bits(f32 ? 0x7f800001ull : 0x7ff0000000000001ull)}; // signalling NaN
        std::vector<T> u;
        for(T x : v)
        {
            bool f = false;
            for(T y : u)
                f = f || std::memcmp(&x, &y, sizeof(T)) == 0;
            if(!f)
                u.push_back(x);
        }
        return u;
    }
};

template<typename T>
std::string cls(T v, T nl)
{
    if(is_nan(v))
        return "nan";
    if(v == nl)
        return "null";
    return "value";
}

// ---------------------------------------------------------------- required
template<typename R>
void check_required(const char* cfg, const std::string& kind, typename R::value_type mn, typename R::value_type mx)
{
    using T = typename R::value_type;
    if(!same_bits_or_both_nan(R::min_value(), mn))
        fail(cfg, kind + ":min_value", "-", "min_value()", "got " + bits_of(R::min_value()) + " want " + bits_of(mn));
    if(!same_bits_or_both_nan(R::max_value(), mx))
        fail(cfg, kind + ":max_value", "-", "max_value()", "got " + bits_of(R::max_value()) + " want " + bits_of(mx));
    g_tr += 2;
#if PART == 0
    {
        R d{};
        if(!same_bits_or_both_nan(*d, T{}))
            fail(cfg, kind + ":default-ctor", "-", "R{}", "not value-initialized");
    }
    auto vals = boundary<T>::get(mn, mx, T{});
    for(T a : vals)
    {
        g_states++;
        R x{a};
        g_tr += 3;
        if(!same_bits_or_both_nan(x.value(), a) || !same_bits_or_both_nan(*x, a))
            fail(cfg, kind + ":value", bits_of(a), "value()", "");
        if(x.in_range() != ((mn <= a) && (a <= mx)))
            fail(cfg, kind + ":in_range", bits_of(a), "in_range()", "");
        for(T b : vals)
        {
            R y{b};
            g_tr += 6;
            const std::string st = bits_of(a) + "," + bits_of(b);
            if((x == y) != (a == b))
                fail(cfg, kind + ":required==", st, "==", "");
            if((x != y) != (a != b))
                fail(cfg, kind + ":required!=", st, "!=", "");
            if((x < y) != (a < b))
                fail(cfg, kind + ":required<", st, "<", "");
            if((x <= y) != (a <= b))
                fail(cfg, kind + ":required<=", st, "<=", "");
            if((x > y) != (a > b))
                fail(cfg, kind + ":required>", st, ">", "");
            if((x >= y) != (a >= b))
                fail(cfg, kind + ":required>=", st, ">=", "");
#    if SBEPP_HAS_THREE_WAY_COMPARISON
            g_tr++;
            if(((x <=> y) < 0) != (a < b) || ((x <=> y) > 0) != (a > b) || ((x <=> y) == 0) != (a == b))
                fail(cfg, kind + ":required<=>", st, "<=>", "");
#    endif
        }
    }
#endif
}

// ---------------------------------------------------------------- optional

#if PART == 1
#    define ORDER_ON(T) (std::is_floating_point<T>::value)
#elif defined(FP_ORDER_SEPARATE)
#    define ORDER_ON(T) (!std::is_floating_point<T>::value)
#else
#    define ORDER_ON(T) (true)
#endif

template<typename O, bool On = ORDER_ON(typename O::value_type)>
struct order_checks
{
    static void run(const char*, const std::string&, const std::string&, const std::string&, O, O, bool, bool, bool, bool) {}
};

template<typename O>
struct order_checks<O, true>
{
    static void run(const char* cfg, const std::string& kind, const std::string& pc, const std::string& st, O x, O y,
                    bool lt, bool le, bool gt, bool ge)
    {
        g_tr += 4;
        if((x < y) != lt)
            fail(cfg, kind + ":optional<:" + pc, st, "<", std::string("want ") + (lt ? "true" : "false"));
        if((x <= y) != le)
            fail(cfg, kind + ":optional<=:" + pc, st, "<=", std::string("want ") + (le ? "true" : "false"));
        if((x > y) != gt)
            fail(cfg, kind + ":optional>:" + pc, st, ">", std::string("want ") + (gt ? "true" : "false"));
        if((x >= y) != ge)
            fail(cfg, kind + ":optional>=:" + pc, st, ">=", std::string("want ") + (ge ? "true" : "false"));
#if SBEPP_HAS_THREE_WAY_COMPARISON
        g_tr++;
        if(((x <=> y) < 0) != lt || ((x <=> y) > 0) != gt)
            fail(cfg, kind + ":optional<=>:" + pc, st, "<=>", "");
#endif
    }
};
template<typename T>
bool model_null(T v, T nl)
{
    return v == nl || (is_nan(nl) && is_nan(v));
}

template<typename O>
void check_optional(const char* cfg, const std::string& kind, typename O::value_type mn, typename O::value_type mx,
                    typename O::value_type nl)
{
    using T = typename O::value_type;
    const bool fp = std::is_floating_point<T>::value;
    const std::string fk = fp ? (is_nan(nl) ? "fp-nan-null" : "fp") : "int";
#if PART == 0
    if(!same_bits_or_both_nan(O::min_value(), mn))
        fail(cfg, kind + ":min_value", "-", "min_value()", "got " + bits_of(O::min_value()) + " want " + bits_of(mn));
    if(!same_bits_or_both_nan(O::max_value(), mx))
        fail(cfg, kind + ":max_value", "-", "max_value()", "got " + bits_of(O::max_value()) + " want " + bits_of(mx));
    if(!same_bits_or_both_nan(O::null_value(), nl))
        fail(cfg, kind + ":null_value", "-", "null_value()", "got " + bits_of(O::null_value()) + " want " + bits_of(nl));
    g_tr += 5;
    {
        O d{};
        if(d.has_value() || static_cast<bool>(d))
            fail(cfg, kind + ":default-ctor-not-null:" + fk, "-", "O{}.has_value()", "default-constructed optional has a value");
        if(!same_bits_or_both_nan(*d, nl))
            fail(cfg, kind + ":default-ctor-value", "-", "*O{}", "does not hold null_value()");
        O n{sbepp::nullopt};
        if(n.has_value() || static_cast<bool>(n))
            fail(cfg, kind + ":nullopt-ctor-not-null:" + fk, "-", "O{nullopt}.has_value()", "nullopt-constructed optional has a value");
        O n2 = sbepp::nullopt;
        if(!same_bits_or_both_nan(*n2, nl))
            fail(cfg, kind + ":nullopt-ctor-value", "-", "*O{nullopt}", "does not hold null_value()");
    }
#endif
    auto vals = boundary<T>::get(mn, mx, nl);
    for(T a : vals)
    {
        O x{a};
        const bool an = model_null(a, nl);
        const std::string ac = cls(a, nl);
#if PART == 0
        g_states++;
        g_tr += 5;
        if(!same_bits_or_both_nan(x.value(), a) || !same_bits_or_both_nan(*x, a))
            fail(cfg, kind + ":value", bits_of(a), "value()", "");
        if(x.has_value() != !an)
            fail(cfg, kind + ":has_value:" + fk + ":" + ac, bits_of(a), "has_value()", std::string("want ") + (an ? "false" : "true"));
        if(static_cast<bool>(x) != !an)
            fail(cfg, kind + ":bool:" + fk + ":" + ac, bits_of(a), "operator bool", "");
        if(x.in_range() != ((mn <= a) && (a <= mx)))
            fail(cfg, kind + ":in_range:" + ac, bits_of(a), "in_range()", "");
        {
            const T dflt = T(42);
            T want = an ? dflt : a;
            if(!same_bits_or_both_nan(x.value_or(dflt), want))
                fail(cfg, kind + ":value_or:" + fk + ":" + ac, bits_of(a), "value_or(42)", "got " + bits_of(x.value_or(dflt)));
        }
#endif
        for(T b : vals)
        {
            O y{b};
            const bool bn = model_null(b, nl);
            const std::string st = bits_of(a) + "," + bits_of(b);
            const std::string pc = fk + ":" + ac + "," + cls(b, nl);
            const bool eq = (an || bn) ? (an && bn) : (a == b);
            const bool lt = !bn && (an || a < b);
            const bool le = an || (!bn && a <= b);
            const bool gt = !an && (bn || a > b);
            const bool ge = bn || (!an && a >= b);
#if PART == 0
            g_tr += 2;
            if((x == y) != eq)
                fail(cfg, kind + ":optional==:" + pc, st, "==", std::string("want ") + (eq ? "true" : "false"));
            if((x != y) != !eq)
                fail(cfg, kind + ":optional!=:" + pc, st, "!=", std::string("want ") + (!eq ? "true" : "false"));
#endif
            order_checks<O>::run(cfg, kind, pc, st, x, y, lt, le, gt, ge);
        }
    }
}

template<typename O>
void opt(const char* cfg, const std::string& kind, typename O::value_type mn, typename O::value_type mx, typename O::value_type nl)
{
    check_optional<O>(cfg, kind, mn, mx, nl);
}

template<typename T>
struct sbe_defaults;
#define DEFAULTS(T_, MIN_, MAX_, NULL_)                       \
    template<>                                                \
    struct sbe_defaults<T_>                                   \
    {                                                         \
        static T_ mn() { return MIN_; }                       \
        static T_ mx() { return MAX_; }                       \
        static T_ nl() { return NULL_; }                      \
    };
// SBE 1.0 table of primitive types (typed in from the standard, not from sbepp)
DEFAULTS(char, 0x20, 0x7e, 0)
DEFAULTS(std::int8_t, -127, 127, -128)
DEFAULTS(std::uint8_t, 0, 254, 255)
DEFAULTS(std::int16_t, -32767, 32767, -32768)
DEFAULTS(std::uint16_t, 0, 65534, 65535)
DEFAULTS(std::int32_t, -2147483647, 2147483647, (-2147483647 - 1))
DEFAULTS(std::uint32_t, 0, 4294967294u, 4294967295u)
DEFAULTS(std::int64_t, -9223372036854775807ll, 9223372036854775807ll, (-9223372036854775807ll - 1))
DEFAULTS(std::uint64_t, 0, 18446744073709551614ull, 18446744073709551615ull)
DEFAULTS(float, std::numeric_limits<float>::min(), std::numeric_limits<float>::max(), std::numeric_limits<float>::quiet_NaN())
DEFAULTS(double, std::numeric_limits<double>::min(), std::numeric_limits<double>::max(), std::numeric_limits<double>::quiet_NaN())

#define PRIM(NAME, T_)                                                                                                        \
    {                                                                                                                         \
        using D = sbe_defaults<T_>;                                                                                           \
        check_required<sbepp::NAME##_t>("builtin/" #NAME "_t", "builtin", D::mn(), D::mx());                                  \
        opt<sbepp::NAME##_opt_t>("builtin/" #NAME "_opt_t", "builtin", D::mn(), D::mx(), D::nl());                            \
        check_required<SCHEMA::types::NAME##_req>(STR(SCHEMA) "/" #NAME "_req", "generated-default", D::mn(), D::mx());       \
        opt<SCHEMA::types::NAME##_opt>(STR(SCHEMA) "/" #NAME "_opt", "generated-default:" #NAME, D::mn(), D::mx(), D::nl());  \
        check_required<SCHEMA::types::NAME##_req_x>(STR(SCHEMA) "/" #NAME "_req_x", "generated-explicit", (T_)EXP_##NAME##_MIN, (T_)EXP_##NAME##_MAX); \
        opt<SCHEMA::types::NAME##_opt_x>(STR(SCHEMA) "/" #NAME "_opt_x", "generated-explicit", (T_)EXP_##NAME##_MIN, (T_)EXP_##NAME##_MAX, (T_)EXP_##NAME##_NULL); \
    }

int main()
{
    PRIM(char, char)
    PRIM(int8, std::int8_t)
    PRIM(uint8, std::uint8_t)
    PRIM(int16, std::int16_t)
    PRIM(uint16, std::uint16_t)
    PRIM(int32, std::int32_t)
    PRIM(uint32, std::uint32_t)
    PRIM(int64, std::int64_t)
    PRIM(uint64, std::uint64_t)
    PRIM(float, float)
    PRIM(double, double)
    std::printf("STATS\t%s/part%d\tstates=%ld\ttransitions=%ld\n", STR(SCHEMA), PART, g_states, g_tr);
    for(auto& kv : g_sigs)
        std::printf("SIG\t%s\t%ld\n", kv.first.c_str(), kv.second);
}
