// Harness primitives shared by all generated/explorer programs (see DESIGN.md 2.5).
//   * guarded buffers: the n-byte buffer ends exactly at a PROT_NONE region of 8 GiB (address space only)
//   * outcome capture: sbepp::assertion_failed -> HANDLER, SIGSEGV/SIGBUS -> FAULT(addr), CPU budget -> TIMEOUT
// Include *after* defining SBEPP_ENABLE_ASSERTS_WITH_HANDLER / SBEPP_DISABLE_ASSERTS on the command line.
#pragma once
#include <csetjmp>
#include <csignal>
#include <cstdint>
#include <cstdio>
#include <cstdlib>
#include <cstring>
#include <string>
#include <sys/mman.h>
#include <sys/time.h>
#include <unistd.h>

namespace vh
{
enum outcome_kind
{
    OK = 0,
    HANDLER = 1,
    FAULT = 2,
    TIMEOUT = 3
};

struct outcome
{
    outcome_kind kind;
    std::uintptr_t fault_addr;
    const char* expr;
    long line;
};

inline sigjmp_buf& jb()
{
    static sigjmp_buf b;
    return b;
}
inline volatile int& armed()
{
    static volatile int a = 0;
    return a;
}
inline outcome& last()
{
    static outcome o{OK, 0, nullptr, 0};
    return o;
}

inline void on_fault(int, siginfo_t* si, void*)
{
    if(!armed())
    {
        const char msg[] = "HARNESS-ERROR: fault outside a guarded call\n";
        (void)!write(2, msg, sizeof(msg) - 1);
        _exit(70);
    }
    last().kind = FAULT;
    last().fault_addr = reinterpret_cast<std::uintptr_t>(si->si_addr);
    siglongjmp(jb(), 2);
}

inline void on_alarm(int)
{
    if(!armed())
    {
        return;
    }
    last().kind = TIMEOUT;
    siglongjmp(jb(), 3);
}

inline void install()
{
    static bool done = false;
    if(done)
        return;
    done = true;
    static char altstack[1 << 16];
    stack_t ss{};
    ss.ss_sp = altstack;
    ss.ss_size = sizeof(altstack);
    sigaltstack(&ss, nullptr);
    struct sigaction sa{};
    sa.sa_sigaction = on_fault;
    sa.sa_flags = SA_SIGINFO | SA_NODEFER | SA_ONSTACK;
    sigemptyset(&sa.sa_mask);
    sigaction(SIGSEGV, &sa, nullptr);
    sigaction(SIGBUS, &sa, nullptr);
    struct sigaction sb{};
    sb.sa_handler = on_alarm;
    sb.sa_flags = SA_NODEFER;
    sigemptyset(&sb.sa_mask);
    sigaction(SIGVTALRM, &sb, nullptr);
}

inline void set_budget_ms(long ms)
{
    itimerval it{};
    it.it_value.tv_sec = ms / 1000;
    it.it_value.tv_usec = (ms % 1000) * 1000;
    setitimer(ITIMER_VIRTUAL, &it, nullptr);
}

// Runs f() and classifies how it ended. f must not own resources (all sbepp views are trivial).
template<typename F>
outcome guarded(F&& f, long budget_ms = 0)
{
    install();
    last() = outcome{OK, 0, nullptr, 0};
    if(sigsetjmp(jb(), 1) == 0)
    {
        armed() = 1;
        if(budget_ms)
            set_budget_ms(budget_ms);
        f();
    }
    if(budget_ms)
        set_budget_ms(0);
    armed() = 0;
    return last();
}

// A buffer of exactly n usable bytes: [PROT_NONE 64 KiB][pad canary ... | n bytes][PROT_NONE 8 GiB]
class guarded_buffer
{
public:
    static constexpr std::size_t page = 4096;
    static constexpr std::size_t front_guard = 16 * page;
    static constexpr std::size_t back_guard = std::size_t(8) << 30;

    explicit guarded_buffer(std::size_t max_bytes)
    {
        body_ = ((max_bytes + page - 1) / page + 1) * page;
        total_ = front_guard + body_ + back_guard;
        base_ = static_cast<unsigned char*>(mmap(
            nullptr, total_, PROT_NONE, MAP_PRIVATE | MAP_ANONYMOUS | MAP_NORESERVE, -1, 0));
        if(base_ == MAP_FAILED)
        {
            std::perror("HARNESS-ERROR: mmap");
            std::exit(70);
        }
        if(mprotect(base_ + front_guard, body_, PROT_READ | PROT_WRITE) != 0)
        {
            std::perror("HARNESS-ERROR: mprotect");
            std::exit(70);
        }
    }
    ~guarded_buffer()
    {
        munmap(base_, total_);
    }
    guarded_buffer(const guarded_buffer&) = delete;
    guarded_buffer& operator=(const guarded_buffer&) = delete;

    // first inaccessible byte
    unsigned char* limit() const
    {
        return base_ + front_guard + body_;
    }
    // start of an n-byte buffer ending at the guard
    unsigned char* at(std::size_t n) const
    {
        return limit() - n;
    }
    unsigned char* body() const
    {
        return base_ + front_guard;
    }
    std::size_t body_size() const
    {
        return body_;
    }
    void fill(unsigned char v) const
    {
        std::memset(body(), v, body_);
    }
    void readonly(bool ro) const
    {
        mprotect(base_ + front_guard, body_, ro ? PROT_READ : (PROT_READ | PROT_WRITE));
    }
    bool is_guard(std::uintptr_t a) const
    {
        auto b = reinterpret_cast<std::uintptr_t>(base_);
        return a >= b && a < b + total_
               && !(a >= b + front_guard && a < b + front_guard + body_);
    }

private:
    unsigned char* base_;
    std::size_t body_, total_;
};

inline std::uint64_t fnv(const unsigned char* p, std::size_t n, std::uint64_t h = 1469598103934665603ull)
{
    for(std::size_t i = 0; i < n; i++)
    {
        h ^= p[i];
        h *= 1099511628211ull;
    }
    return h;
}

inline std::string hex(const unsigned char* p, std::size_t n)
{
    static const char d[] = "0123456789abcdef";
    std::string s;
    for(std::size_t i = 0; i < n; i++)
    {
        s += d[p[i] >> 4];
        s += d[p[i] & 15];
    }
    return s;
}
} // namespace vh

#if defined(SBEPP_ENABLE_ASSERTS_WITH_HANDLER) || defined(SBEPP_ASSERT_HANDLER)
#    define VH_DEFINE_ASSERT_HANDLER                                                            \
        namespace sbepp                                                                         \
        {                                                                                       \
        [[noreturn]] void assertion_failed(char const* expr, char const*, char const*, long line) \
        {                                                                                       \
            if(!vh::armed())                                                                    \
            {                                                                                   \
                std::fprintf(stderr, "HARNESS-ERROR: assertion outside guarded call: %s line %ld\n", expr, line); \
                std::_Exit(71);                                                                 \
            }                                                                                   \
            vh::last().kind = vh::HANDLER;                                                      \
            vh::last().expr = expr;                                                             \
            vh::last().line = line;                                                             \
            siglongjmp(vh::jb(), 1);                                                            \
        }                                                                                       \
        }
#else
#    define VH_DEFINE_ASSERT_HANDLER
#endif
