/* C20 I/O fault shim (LD_PRELOAD). Counts the I/O calls that touch the output tree (paths under $SHIM_PREFIX and
 * descriptors / streams opened there) and makes the k-th one fail.
 *   SHIM_PREFIX   absolute path prefix of the output directory
 *   SHIM_LOG      file that receives one line per counted call: "<k> <call> <path|fd> <result>"
 *   SHIM_FAIL_K   1-based index of the call to fail (0 / unset: none)
 *   SHIM_ERRNO    errno to report (default ENOSPC)
 *   SHIM_SHORT    1: a failing write/writev first writes half of the data, and every later write to that fd fails
 */
#define _GNU_SOURCE
#include <dlfcn.h>
#include <errno.h>
#include <fcntl.h>
#include <stdarg.h>
#include <stdio.h>
#include <stdlib.h>
#include <string.h>
#include <sys/stat.h>
#include <sys/uio.h>
#include <unistd.h>

static long counter = 0;
static int tracked_fd[4096];
static int poisoned_fd[4096];
static FILE* tracked_fp[256];
static int n_fp = 0;

static const char* prefix(void)
{
    return getenv("SHIM_PREFIX");
}
static int under(const char* path)
{
    const char* p = prefix();
    return p && path && strncmp(path, p, strlen(p)) == 0;
}
static long fail_k(void)
{
    const char* s = getenv("SHIM_FAIL_K");
    return s ? atol(s) : 0;
}
static int fail_errno(void)
{
    const char* s = getenv("SHIM_ERRNO");
    return s ? atoi(s) : ENOSPC;
}
static int short_mode(void)
{
    const char* s = getenv("SHIM_SHORT");
    return s && atoi(s);
}
static void logline(long k, const char* call, const char* what, long res)
{
    const char* lp = getenv("SHIM_LOG");
    if(!lp)
        return;
    static int (*real_open)(const char*, int, ...) = 0;
    static ssize_t (*real_write)(int, const void*, size_t) = 0;
    static int (*real_close)(int) = 0;
    if(!real_open)
    {
        real_open = dlsym(RTLD_NEXT, "open");
        real_write = dlsym(RTLD_NEXT, "write");
        real_close = dlsym(RTLD_NEXT, "close");
    }
    char buf[1024];
    int n = snprintf(buf, sizeof(buf), "%ld %s %s %ld\n", k, call, what, res);
    int fd = real_open(lp, O_WRONLY | O_CREAT | O_APPEND, 0644);
    if(fd >= 0)
    {
        real_write(fd, buf, (size_t)n);
        real_close(fd);
    }
}
/* returns 1 when this counted call must fail */
static int tick(long* k_out)
{
    counter++;
    *k_out = counter;
    return fail_k() == counter;
}

int mkdir(const char* path, mode_t mode)
{
    static int (*real)(const char*, mode_t) = 0;
    if(!real)
        real = dlsym(RTLD_NEXT, "mkdir");
    if(!under(path))
        return real(path, mode);
    long k;
    if(tick(&k))
    {
        logline(k, "mkdir", path, -1);
        errno = fail_errno();
        return -1;
    }
    int r = real(path, mode);
    logline(k, "mkdir", path, r);
    return r;
}

static int open_common(const char* call, const char* path, int flags, mode_t mode, int (*real)(const char*, int, ...))
{
    if(!under(path) || !(flags & (O_WRONLY | O_RDWR | O_CREAT)))
        return real(path, flags, mode);
    long k;
    if(tick(&k))
    {
        logline(k, call, path, -1);
        errno = fail_errno();
        return -1;
    }
    int fd = real(path, flags, mode);
    if(fd >= 0 && fd < 4096)
    {
        tracked_fd[fd] = 1;
        poisoned_fd[fd] = 0;
    }
    logline(k, call, path, fd);
    return fd;
}

int open(const char* path, int flags, ...)
{
    static int (*real)(const char*, int, ...) = 0;
    if(!real)
        real = dlsym(RTLD_NEXT, "open");
    mode_t mode = 0;
    if(flags & O_CREAT)
    {
        va_list ap;
        va_start(ap, flags);
        mode = va_arg(ap, mode_t);
        va_end(ap);
    }
    return open_common("open", path, flags, mode, real);
}
int open64(const char* path, int flags, ...)
{
    static int (*real)(const char*, int, ...) = 0;
    if(!real)
        real = dlsym(RTLD_NEXT, "open64");
    mode_t mode = 0;
    if(flags & O_CREAT)
    {
        va_list ap;
        va_start(ap, flags);
        mode = va_arg(ap, mode_t);
        va_end(ap);
    }
    return open_common("open64", path, flags, mode, real);
}
int openat(int dirfd, const char* path, int flags, ...)
{
    static int (*real)(int, const char*, int, ...) = 0;
    if(!real)
        real = dlsym(RTLD_NEXT, "openat");
    mode_t mode = 0;
    if(flags & O_CREAT)
    {
        va_list ap;
        va_start(ap, flags);
        mode = va_arg(ap, mode_t);
        va_end(ap);
    }
    if(!under(path) || !(flags & (O_WRONLY | O_RDWR | O_CREAT)))
        return real(dirfd, path, flags, mode);
    long k;
    if(tick(&k))
    {
        logline(k, "openat", path, -1);
        errno = fail_errno();
        return -1;
    }
    int fd = real(dirfd, path, flags, mode);
    if(fd >= 0 && fd < 4096)
    {
        tracked_fd[fd] = 1;
        poisoned_fd[fd] = 0;
    }
    logline(k, "openat", path, fd);
    return fd;
}

static FILE* fopen_common(const char* call, const char* path, const char* mode, FILE* (*real)(const char*, const char*))
{
    if(!under(path) || !(strchr(mode, 'w') || strchr(mode, 'a') || strchr(mode, '+')))
        return real(path, mode);
    long k;
    if(tick(&k))
    {
        logline(k, call, path, -1);
        errno = fail_errno();
        return NULL;
    }
    FILE* f = real(path, mode);
    if(f && n_fp < 256)
        tracked_fp[n_fp++] = f;
    if(f)
    {
        int fd = fileno(f);
        if(fd >= 0 && fd < 4096)
        {
            tracked_fd[fd] = 1;
            poisoned_fd[fd] = 0;
        }
    }
    logline(k, call, path, f ? 0 : -1);
    return f;
}
FILE* fopen(const char* path, const char* mode)
{
    static FILE* (*real)(const char*, const char*) = 0;
    if(!real)
        real = dlsym(RTLD_NEXT, "fopen");
    return fopen_common("fopen", path, mode, real);
}
FILE* fopen64(const char* path, const char* mode)
{
    static FILE* (*real)(const char*, const char*) = 0;
    if(!real)
        real = dlsym(RTLD_NEXT, "fopen64");
    return fopen_common("fopen64", path, mode, real);
}

ssize_t write(int fd, const void* buf, size_t n)
{
    static ssize_t (*real)(int, const void*, size_t) = 0;
    if(!real)
        real = dlsym(RTLD_NEXT, "write");
    if(fd < 0 || fd >= 4096 || !tracked_fd[fd])
        return real(fd, buf, n);
    char what[32];
    snprintf(what, sizeof(what), "fd%d:%zu", fd, n);
    long k;
    int f = tick(&k);
    if(poisoned_fd[fd])
    {
        logline(k, "write", what, -1);
        errno = ENOSPC;
        return -1;
    }
    if(f)
    {
        if(short_mode() && n > 1)
        {
            poisoned_fd[fd] = 1;
            ssize_t r = real(fd, buf, n / 2);
            logline(k, "write(short)", what, r);
            return r;
        }
        logline(k, "write", what, -1);
        errno = fail_errno();
        return -1;
    }
    ssize_t r = real(fd, buf, n);
    logline(k, "write", what, r);
    return r;
}

ssize_t writev(int fd, const struct iovec* iov, int cnt)
{
    static ssize_t (*real)(int, const struct iovec*, int) = 0;
    if(!real)
        real = dlsym(RTLD_NEXT, "writev");
    if(fd < 0 || fd >= 4096 || !tracked_fd[fd])
        return real(fd, iov, cnt);
    size_t total = 0;
    for(int i = 0; i < cnt; i++)
        total += iov[i].iov_len;
    char what[32];
    snprintf(what, sizeof(what), "fd%d:%zu", fd, total);
    long k;
    int f = tick(&k);
    if(poisoned_fd[fd])
    {
        logline(k, "writev", what, -1);
        errno = ENOSPC;
        return -1;
    }
    if(f)
    {
        if(short_mode() && cnt > 0 && iov[0].iov_len > 1)
        {
            poisoned_fd[fd] = 1;
            static ssize_t (*real_write)(int, const void*, size_t) = 0;
            if(!real_write)
                real_write = dlsym(RTLD_NEXT, "write");
            ssize_t r = real_write(fd, iov[0].iov_base, iov[0].iov_len / 2);
            logline(k, "writev(short)", what, r);
            return r;
        }
        logline(k, "writev", what, -1);
        errno = fail_errno();
        return -1;
    }
    ssize_t r = real(fd, iov, cnt);
    logline(k, "writev", what, r);
    return r;
}

int fclose(FILE* f)
{
    static int (*real)(FILE*) = 0;
    if(!real)
        real = dlsym(RTLD_NEXT, "fclose");
    int is = 0;
    for(int i = 0; i < n_fp; i++)
        if(tracked_fp[i] == f)
        {
            is = 1;
            tracked_fp[i] = tracked_fp[--n_fp];
            break;
        }
    if(!is)
        return real(f);
    int fd = fileno(f);
    long k;
    int fl = tick(&k);
    /* the buffered data is flushed by the real fclose through write(), which is counted separately */
    int r = real(f);
    if(fd >= 0 && fd < 4096)
        tracked_fd[fd] = 0;
    if(fl)
    {
        logline(k, "fclose", "stream", -1);
        errno = fail_errno();
        return EOF;
    }
    logline(k, "fclose", "stream", r);
    return r;
}

int close(int fd)
{
    static int (*real)(int) = 0;
    if(!real)
        real = dlsym(RTLD_NEXT, "close");
    if(fd < 0 || fd >= 4096 || !tracked_fd[fd])
        return real(fd);
    long k;
    int fl = tick(&k);
    int r = real(fd);
    tracked_fd[fd] = 0;
    if(fl)
    {
        logline(k, "close", "fd", -1);
        errno = fail_errno();
        return -1;
    }
    logline(k, "close", "fd", r);
    return r;
}
