// C04 explorer context: for one member of one view instance, run one accessor thunk from *every* cursor state
// (every byte offset 0..len of the image, plus the null cursor) and compare with the model's expectation.
#pragma once
#include "drv.hpp"
#include <map>

namespace cx
{
using drv::u64;

enum wrapper
{
    PLAIN = 0,
    INIT = 1,
    DONT_MOVE = 2,
    INIT_DONT_MOVE = 3,
    SKIP = 4
};
static const char* wname[] = {"plain", "init", "dont_move", "init_dont_move", "skip"};

struct expectation
{
    long req;       // required cursor offset, -1 = any (first variable-length member of its level)
    long a_move;    // cursor after plain / init
    long a_stay;    // cursor after init_dont_move
    long a_skip;    // cursor after skip
    u64 res;        // value bits, or view address offset
    int res_bytes;  // width of the value in bytes, 0 = address
};

template<typename Byte>
struct X
{
    unsigned char* base = nullptr;
    std::size_t len = 0;
    std::vector<unsigned char> image;
    sbepp::cursor<Byte> c;
    expectation e{};
    std::string where;     // view/member label
    long transitions = 0, legal = 0, illegal = 0, states = 0;
    std::map<std::string, std::string> fails; // signature -> first detail
    std::map<std::string, long> fail_count;

    void fail(const std::string& sig, const std::string& detail)
    {
        if(fail_count[sig]++ == 0)
            fails[sig] = detail;
    }

    void expect(drv::In& in)
    {
        e.req = (long)in.num() - 1; // encoded +1 so that -1 (any) is 0
        e.a_move = (long)in.num();
        e.a_stay = (long)in.num();
        e.a_skip = (long)in.num();
        e.res = in.num();
        e.res_bytes = (int)in.num();
    }

    // f(cursor&, u64& result): performs the call; result is only meaningful when has_result
    template<typename F>
    void run(int w, bool is_set, bool has_result, const char* kind, F f)
    {
        for(long s = -1; s <= (long)len; s++)
        {
            transitions++;
            c.pointer() = s < 0 ? nullptr : reinterpret_cast<Byte*>(base + s);
            u64 result = 0;
            auto out = vh::guarded([&] { f(c, result); }, 2000);
            const bool init = (w == INIT || w == INIT_DONT_MOVE);
            const bool is_legal = init || e.req < 0 || s == e.req;
            const std::string op = std::string(kind) + (is_set ? ":set:" : ":get:") + wname[w];
            const std::string st = where + " " + op + " cursor=" + std::to_string(s);
            if(is_legal)
            {
                legal++;
                if(out.kind != vh::OK)
                {
                    fail(op + ":legal-call-" + (out.kind == vh::HANDLER ? "HANDLER" : out.kind == vh::FAULT ? "FAULT" : "TIMEOUT"),
                         st + " " + (out.expr ? out.expr : ""));
                    continue;
                }
                long after = c.pointer() ? (long)((const unsigned char*)c.pointer() - base) : -1;
                long want_after = (w == PLAIN || w == INIT) ? e.a_move
                                  : (w == DONT_MOVE)       ? (e.req < 0 ? e.a_stay : s)
                                  : (w == INIT_DONT_MOVE)  ? e.a_stay
                                                           : e.a_skip;
                if(after != want_after)
                    fail(op + ":cursor-after", st + " after=" + std::to_string(after) + " want " + std::to_string(want_after));
                if(has_result && result != e.res)
                    fail(op + ":result", st + " got " + std::to_string(result) + " want " + std::to_string(e.res));
                if(std::memcmp(base, image.data(), len) != 0)
                {
                    fail(op + ":buffer-changed", st);
                    std::memcpy(base, image.data(), len);
                }
            }
            else
            {
                illegal++;
                if(out.kind == vh::HANDLER)
                    continue;
                if(out.kind == vh::OK)
                    fail(op + ":illegal-call-not-reported", st + " returned silently (req " + std::to_string(e.req) + ")");
                else
                    fail(op + ":illegal-call-" + (out.kind == vh::FAULT ? "FAULT" : "TIMEOUT"), st);
                if(std::memcmp(base, image.data(), len) != 0)
                    std::memcpy(base, image.data(), len);
            }
        }
    }
};

template<typename P>
inline u64 addr_off(P p, const unsigned char* base)
{
    return (u64)((const unsigned char*)p - base);
}
} // namespace cx
