// C14: fixed-length arrays. States: all contents over {NUL,'a','b'} of length N (3^N), N = 0..4 (N = 1 and the
// schema-free instantiations come from the class template directly; N in {0,2,3,4} also from generated accessors).
// Inputs: all strings over {'a','b'} (const char*) / {NUL,'a','b'} (ranges) of length 0..N; three eos modes;
// every overload. Reference: the doxygen text of static_array_ref.
// Build: -DSBEPP_ENABLE_ASSERTS_WITH_HANDLER -DSCHEMA=lib_le
#include <sbepp/sbepp.hpp>
#define STR2(x) #x
#define STR(x) STR2(x)
#define HDR2(x) <x/x.hpp>
#include HDR2(SCHEMA)
#include "harness.hpp"
#include <iterator>
#include <map>
#include <string>
#include <vector>
#if __cplusplus >= 201703L
#    include <string_view>
#endif

VH_DEFINE_ASSERT_HANDLER

static std::map<std::string, long> g_sigs;
static long g_printed = 0;

template<typename V>
struct in_it
{
    using iterator_category = std::input_iterator_tag;
    using value_type = V;
    using difference_type = std::ptrdiff_t;
    using pointer = const V*;
    using reference = const V&;
    const V* p;
    reference operator*() const { return *p; }
    in_it& operator++() { ++p; return *this; }
    in_it operator++(int) { auto c = *this; ++p; return c; }
    bool operator==(const in_it& o) const { return p == o.p; }
    bool operator!=(const in_it& o) const { return p != o.p; }
};


// a *genuinely* single-pass input iterator (istream_iterator semantics): all copies share one stream position and each
// iterator caches the element it read; advancing any copy consumes the stream for all of them
template<typename V>
struct sp_stream
{
    const V* cur;
    const V* end;
};
template<typename V>
struct sp_it
{
    using iterator_category = std::input_iterator_tag;
    using value_type = V;
    using difference_type = std::ptrdiff_t;
    using pointer = const V*;
    using reference = const V&;
    sp_stream<V>* s = nullptr;
    V val{};
    sp_it() = default;
    explicit sp_it(sp_stream<V>* st) : s(st) { read(); }
    void read()
    {
        if(s && s->cur != s->end)
            val = *s->cur++;
        else
            s = nullptr;
    }
    reference operator*() const { return val; }
    sp_it& operator++() { read(); return *this; }
    sp_it operator++(int) { auto c = *this; read(); return c; }
    bool operator==(const sp_it& o) const { return s == o.s; }
    bool operator!=(const sp_it& o) const { return s != o.s; }
};

using bytes = std::vector<unsigned char>;

static std::string show(const bytes& b)
{
    std::string s = "\"";
    for(auto c : b)
        s += c ? std::string(1, (char)c) : std::string("\\0");
    return s + "\"";
}

static std::vector<bytes> all_seqs(std::size_t len, const bytes& letters)
{
    std::vector<bytes> level{bytes{}};
    for(std::size_t n = 0; n < len; n++)
    {
        std::vector<bytes> next;
        for(auto& s : level)
            for(auto a : letters)
            {
                bytes t = s;
                t.push_back(a);
                next.push_back(t);
            }
        level = next;
    }
    return level;
}

static std::vector<bytes> seqs_upto(std::size_t maxlen, const bytes& letters)
{
    std::vector<bytes> all;
    for(std::size_t n = 0; n <= maxlen; n++)
        for(auto& s : all_seqs(n, letters))
            all.push_back(s);
    return all;
}

struct dummy_tag
{
};

// strlen() is only well-formed for char arrays (it hands data() to a const char* function)
template<typename A>
typename std::enable_if<std::is_same<typename A::value_type, char>::value, std::size_t>::type do_strlen(A a, std::size_t)
{
    return a.strlen();
}
template<typename A>
typename std::enable_if<!std::is_same<typename A::value_type, char>::value, std::size_t>::type do_strlen(A, std::size_t want)
{
    return want;
}

template<typename Byte, typename A>
struct explorer
{
    using V = typename A::value_type;
    static constexpr std::size_t N = A::size();
    static constexpr std::size_t G = 4;
    const char* cfg;
    unsigned char raw[G + N + G];
    unsigned char before[G + N + G];
    long states = 0, transitions = 0, failures = 0;

    explicit explorer(const char* c) : cfg(c) {}

    void setup(const bytes& s)
    {
        for(std::size_t i = 0; i < sizeof(raw); i++)
            raw[i] = (unsigned char)(0x80 | ((i * 13 + 5) & 0x3f));
        for(std::size_t i = 0; i < N; i++)
            raw[G + i] = s[i];
        std::memcpy(before, raw, sizeof(raw));
    }
    A view() { return A{reinterpret_cast<Byte*>(raw + G), N}; }

    void fail(const std::string& cls, const std::string& op, const bytes& s, const std::string& kind,
              const std::string& detail)
    {
        failures++;
        std::string sig = cls + ":" + kind;
        if(g_sigs[sig]++ < 3 && g_printed++ < 200)
            std::printf("FAIL\t%s\t%s\t%s\t%s\t%s\t%s\n", sig.c_str(), cfg, show(s).c_str(), op.c_str(),
                        kind.c_str(), detail.c_str());
    }

    // expected: full content after the op and returned iterator offset
    template<typename Impl>
    void step(const bytes& s, const std::string& cls, const std::string& op, Impl impl, const bytes& want, long wret)
    {
        transitions++;
        setup(s);
        volatile long ret = -2;
        auto out = vh::guarded([&] { A a = view(); ret = impl(a); }, 2000);
        if(out.kind != vh::OK)
        {
            fail(cls, op, s, out.kind == vh::HANDLER ? "HANDLER" : out.kind == vh::FAULT ? "FAULT" : "TIMEOUT",
                 out.expr ? out.expr : "");
            return;
        }
        bytes got(raw + G, raw + G + N);
        if(got != want)
        {
            fail(cls, op, s, "CONTENT", "got " + show(got) + " want " + show(want));
            return;
        }
        if((long)ret != wret)
        {
            fail(cls, op, s, "ITERATOR", "got " + std::to_string((long)ret) + " want " + std::to_string(wret));
            return;
        }
        if(std::memcmp(raw, before, G) || std::memcmp(raw + G + N, before + G + N, G))
            fail(cls, op, s, "OUTSIDE-WRITE", "guard bytes changed");
    }

    static bytes after(const bytes& s, const bytes& in, int mode /*0 none 1 single 2 all*/)
    {
        bytes w = s;
        for(std::size_t i = 0; i < in.size(); i++)
            w[i] = in[i];
        if(mode == 2)
            for(std::size_t i = in.size(); i < N; i++)
                w[i] = 0;
        else if(mode == 1 && in.size() < N)
            w[in.size()] = 0;
        return w;
    }

    void reads(const bytes& s)
    {
        transitions++;
        setup(s);
        std::string err;
        std::size_t want_strlen = N, want_strlen_r = 0;
        for(std::size_t i = 0; i < N; i++)
            if(s[i] == 0)
            {
                want_strlen = i;
                break;
            }
        for(std::size_t i = N; i > 0; i--)
            if(s[i - 1] != 0)
            {
                want_strlen_r = i;
                break;
            }
        auto out = vh::guarded(
            [&]
            {
                A a = view();
                const unsigned char* p = raw + G;
                if(do_strlen(a, want_strlen) != want_strlen)
                    err = "strlen got " + std::to_string(do_strlen(a, want_strlen)) + " want " + std::to_string(want_strlen);
                else if(a.strlen_r() != want_strlen_r)
                    err = "strlen_r got " + std::to_string(a.strlen_r()) + " want " + std::to_string(want_strlen_r);
                else if(a.size() != N || a.max_size() != N || a.empty() != (N == 0))
                    err = "size/max_size/empty";
                else if((const unsigned char*)a.begin() != p || (const unsigned char*)a.end() != p + N
                        || (const unsigned char*)a.data() != p)
                    err = "begin/end/data";
                else if(sbepp::size_bytes(a) != N || (const unsigned char*)sbepp::addressof(a) != p)
                    err = "size_bytes/addressof";
                else if(a.rbegin().base() != a.end() || a.rend().base() != a.begin())
                    err = "rbegin/rend";
                for(std::size_t i = 0; i < N && err.empty(); i++)
                    if((unsigned char)a[i] != s[i])
                        err = "operator[]";
                if(N && err.empty() && ((unsigned char)a.front() != s[0] || (unsigned char)a.back() != s[N - 1]))
                    err = "front/back";
                std::size_t k = 0;
                for(auto e : a)
                {
                    if((unsigned char)e != s[k])
                        err = "iteration";
                    k++;
                }
                if(k != N)
                    err = "iteration count";
                auto r = a.raw();
                if((const unsigned char*)sbepp::addressof(r) != p || r.size() != N)
                    err = "raw()";
            },
            2000);
        if(out.kind != vh::OK)
            fail("reads", "reads", s, out.kind == vh::HANDLER ? "HANDLER" : "FAULT", out.expr ? out.expr : "");
        else if(!err.empty())
            fail("reads:" + err.substr(0, err.find(' ')), "reads", s, "VALUE", err);
        else if(std::memcmp(raw, before, sizeof(raw)))
            fail("reads", "reads", s, "OUTSIDE-WRITE", "a read wrote");
    }

    void run()
    {
        const bytes abz{0, 'a', 'b'}, ab{'a', 'b'};
        static const sbepp::eos_null modes[3] = {sbepp::eos_null::none, sbepp::eos_null::single, sbepp::eos_null::all};
        static const char* mname[3] = {"none", "single", "all"};
        for(const bytes& s : all_seqs(N, abz))
        {
            states++;
            reads(s);
            for(const bytes& in : seqs_upto(N, ab))
            {
                std::string str(in.begin(), in.end());
                const std::string lc = in.size() == N ? "len=N" : (in.empty() ? "len=0" : "len<N");
                for(int m = 0; m < 3; m++)
                    step(s, std::string("assign_string(cstr,") + mname[m] + ")," + lc, "assign_string(" + show(in) + "," + mname[m] + ")",
                         [&](A a) { return long(a.assign_string(str.c_str(), modes[m]) - a.begin()); }, after(s, in, m),
                         (long)in.size());
                step(s, "assign_string(cstr,default)," + lc, "assign_string(" + show(in) + ")",
                     [&](A a) { return long(a.assign_string(str.c_str()) - a.begin()); }, after(s, in, 2), (long)in.size());
            }
            for(const bytes& in : seqs_upto(N, abz))
            {
                std::string str(in.begin(), in.end());
                std::vector<char> vc(in.begin(), in.end());
                std::vector<V> vv;
                for(auto c : in)
                    vv.push_back((V)c);
                const std::string lc = in.size() == N ? "len=N" : (in.empty() ? "len=0" : "len<N");
                for(int m = 0; m < 3; m++)
                {
                    step(s, std::string("assign_string(std::string,") + mname[m] + ")," + lc, "assign_string(string" + show(in) + "," + mname[m] + ")",
                         [&](A a) { return long(a.assign_string(str, modes[m]) - a.begin()); }, after(s, in, m), (long)in.size());
                    step(s, std::string("assign_string(vector<char>,") + mname[m] + ")," + lc, "assign_string(vector" + show(in) + "," + mname[m] + ")",
                         [&](A a) { return long(a.assign_string(vc, modes[m]) - a.begin()); }, after(s, in, m), (long)in.size());
#if __cplusplus >= 201703L
                    step(s, std::string("assign_string(string_view,") + mname[m] + ")," + lc, "assign_string(string_view" + show(in) + "," + mname[m] + ")",
                         [&](A a) { return long(a.assign_string(std::string_view{str}, modes[m]) - a.begin()); }, after(s, in, m),
                         (long)in.size());
#endif
                }
                step(s, "assign_string(std::string,default)," + lc, "assign_string(string" + show(in) + ")",
                     [&](A a) { return long(a.assign_string(str) - a.begin()); }, after(s, in, 2), (long)in.size());
                step(s, "assign_range(std::string)," + lc, "assign_range(string" + show(in) + ")",
                     [&](A a) { return long(a.assign_range(str) - a.begin()); }, after(s, in, 0), (long)in.size());
                step(s, "assign_range(vector)," + lc, "assign_range(vector" + show(in) + ")",
                     [&](A a) { return long(a.assign_range(vv) - a.begin()); }, after(s, in, 0), (long)in.size());
                step(s, "assign(ptr,ptr)," + lc, "assign(ptr" + show(in) + ")",
                     [&](A a) { return long(a.assign(vv.data(), vv.data() + vv.size()) - a.begin()); }, after(s, in, 0),
                     (long)in.size());
                step(s, "assign(input_it,input_it)," + lc, "assign(input" + show(in) + ")",
                     [&](A a) { return long(a.assign(in_it<V>{vv.data()}, in_it<V>{vv.data() + vv.size()}) - a.begin()); },
                     after(s, in, 0), (long)in.size());
                step(s, "assign(single_pass_it,single_pass_it)," + lc, "assign(single-pass" + show(in) + ")",
                     [&](A a) { sp_stream<V> st{vv.data(), vv.data() + vv.size()}; return long(a.assign(sp_it<V>{&st}, sp_it<V>{}) - a.begin()); },
                     after(s, in, 0), (long)in.size());
            }
            for(std::size_t cnt = 0; cnt <= N; cnt++)
                for(unsigned char v : abz)
                    step(s, std::string("assign(cnt,v),") + (cnt == N ? "cnt=N" : "cnt<N"),
                         "assign(" + std::to_string(cnt) + "x" + std::to_string(v) + ")",
                         [&](A a) { return long(a.assign(cnt, (V)v) - a.begin()); }, after(s, bytes(cnt, v), 0), (long)cnt);
            for(unsigned char v : abz)
                step(s, "fill", "fill(" + std::to_string(v) + ")", [&](A a) { a.fill((V)v); return -1L; }, bytes(N, v), -1);
            {
                const V a_ = (V)'a', b_ = (V)'b', z_ = (V)0;
                step(s, "assign(ilist=empty)", "assign({})", [&](A a) { return long(a.assign(std::initializer_list<V>{}) - a.begin()); },
                     s, 0);
                if(N >= 1)
                    step(s, "assign(ilist)", "assign({b})", [&](A a) { return long(a.assign({b_}) - a.begin()); }, after(s, bytes{'b'}, 0), 1);
                if(N >= 2)
                    step(s, "assign(ilist)", "assign({a,0})", [&](A a) { return long(a.assign({a_, z_}) - a.begin()); },
                         after(s, bytes{'a', 0}, 0), 2);
                if(N >= 3)
                    step(s, "assign(ilist)", "assign({b,a,b})", [&](A a) { return long(a.assign({b_, a_, b_}) - a.begin()); },
                         after(s, bytes{'b', 'a', 'b'}, 0), 3);
                if(N >= 4)
                    step(s, "assign(ilist)", "assign({b,a,0,b})", [&](A a) { return long(a.assign({b_, a_, z_, b_}) - a.begin()); },
                         after(s, bytes{'b', 'a', 0, 'b'}, 0), 4);
            }
        }
        std::printf("STATS\t%s\tN=%zu\tstates=%ld\ttransitions=%ld\tfailures=%ld\n", cfg, N, states, transitions, failures);
    }
};

template<typename Byte>
void run_all(const char* bn)
{
#define RUNT(N_, V_)                                                                            \
    {                                                                                           \
        using A = sbepp::detail::static_array_ref<Byte, V_, N_, dummy_tag>;                     \
        std::string cfg = std::string("template/") + bn + "/" #V_ "[" #N_ "]";                  \
        explorer<Byte, A> e{strdup(cfg.c_str())};                                               \
        e.run();                                                                                \
    }
    RUNT(0, char) RUNT(1, char) RUNT(2, char) RUNT(3, char) RUNT(4, char)
    RUNT(0, std::uint8_t) RUNT(1, std::uint8_t) RUNT(3, std::uint8_t) RUNT(4, std::uint8_t)
    using M = SCHEMA::messages::m_arr<Byte>;
#define RUNG(member)                                                                            \
    {                                                                                           \
        using A = decltype(std::declval<M>().member());                                         \
        std::string cfg = std::string(STR(SCHEMA)) + "/" + bn + "/" #member;                    \
        explorer<Byte, A> e{strdup(cfg.c_str())};                                               \
        e.run();                                                                                \
    }
    RUNG(a0) RUNG(a2) RUNG(a3) RUNG(a4) RUNG(u0) RUNG(u2) RUNG(u3) RUNG(u4)
}

int main()
{
    run_all<char>("char");
    run_all<unsigned char>("uchar");
    for(auto& kv : g_sigs)
        std::printf("SIG\t%s\t%ld\n", kv.first.c_str(), kv.second);
}
