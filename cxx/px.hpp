// C10 prober: every accessor / iterator step / container operation is executed on a view bound to exactly n bytes
// (the buffer ends at a PROT_NONE page) in a *checked* build.  Outcomes per op:
//   FAULT                      -> a byte at or beyond p+n was touched without the assertion handler firing: violation
//   HANDLER while n >= need    -> spurious assertion for an op whose whole sub-object lies inside the buffer: violation
//   OK / HANDLER otherwise     -> accepted
#pragma once
#include "drv.hpp"
#include <map>
#include <stdexcept>

namespace px
{
using drv::u64;

struct P
{
    unsigned char* base = nullptr;
    long n = 0;           // view size
    bool converse = true; // false when the header fields were corrupted (the model's extents no longer apply)
    long ops = 0, ok = 0, handler = 0, timeouts = 0, below = 0;
    std::map<std::string, std::string> fails;
    std::map<std::string, long> fail_count;
    volatile u64 sink = 0;

    void fail(const std::string& sig, const std::string& detail)
    {
        if(fail_count[sig]++ == 0)
            fails[sig] = detail;
    }

    // need: end offset of the sub-object the op addresses (and of everything it has to walk to reach it)
    template<typename F>
    bool op(const char* label, long need, F f)
    {
        ops++;
        bool threw = false;
        auto out = vh::guarded(
            [&]
            {
                try
                {
                    f();
                }
                catch(const std::exception&)
                {
                    threw = true; // e.g. a container built from an absurd [begin, end) that no assertion rejected
                }
            },
            300);
        if(threw)
        {
            fail(std::string("absurd-range-accepted:") + label, std::string(label) + " n=" + std::to_string(n));
            return false;
        }
        if(out.kind == vh::OK)
        {
            ok++;
            return true;
        }
        if(out.kind == vh::HANDLER)
        {
            handler++;
            if(converse && n >= need)
                fail(std::string("spurious-handler:") + label,
                     std::string(label) + " n=" + std::to_string(n) + " need=" + std::to_string(need) + " " + (out.expr ? out.expr : ""));
            return false;
        }
        if(out.kind == vh::TIMEOUT)
        {
            timeouts++; // bounded work is not what this property states (C06 does, for size_bytes_checked)
            return false;
        }
        if(out.kind == vh::FAULT && out.fault_addr < (std::uintptr_t)base + (std::uintptr_t)n)
        {
            below++; // an access *before* p (pointer wrap-around from a hostile 2^63 offset) is outside the statement
            return false;
        }
        if(out.kind == vh::FAULT)
            fail(std::string("silent-outside-access:") + label,
                 std::string(label) + " n=" + std::to_string(n) + " need=" + std::to_string(need) + " fault_offset="
                     + std::to_string((long long)(out.fault_addr - (std::uintptr_t)base)));
        else
            fail(std::string("timeout:") + label, std::string(label) + " n=" + std::to_string(n));
        return false;
    }
};
} // namespace px
