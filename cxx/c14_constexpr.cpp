// C14, constant-evaluation part (C++20 and later): the same exhaustive table -- N = 0..3, every initial content over
// {NUL,'a','b'}, every string over {'a','b'} of length <= N, the three eos modes -- evaluated inside constant
// expressions (assign_string(const char*), strlen, strlen_r, fill, assign(cnt,v)) and compared with the reference there.
#include <sbepp/sbepp.hpp>
#include <array>
#include <cstdio>

struct ctag
{
};

template<std::size_t N>
using arr_t = sbepp::detail::static_array_ref<char, char, N, ctag>;

constexpr std::size_t ipow(std::size_t b, std::size_t e)
{
    std::size_t r = 1;
    for(std::size_t i = 0; i < e; i++)
        r *= b;
    return r;
}

// number of mismatches over the whole table; G guard bytes after the array must stay untouched
template<std::size_t N>
constexpr long check_assign_string()
{
    constexpr std::size_t G = 2;
    const char letters[3] = {'\0', 'a', 'b'};
    long bad = 0, cases = 0;
    for(std::size_t c = 0; c < ipow(3, N); c++) // initial content
    {
        for(std::size_t len = 0; len <= N; len++)
            for(std::size_t sv = 0; sv < ipow(2, len); sv++) // input string over {a,b}
                for(int mode = 0; mode < 3; mode++)
                {
                    std::array<char, N + G> buf{};
                    std::array<char, N + G> want{};
                    std::size_t cc = c;
                    for(std::size_t i = 0; i < N; i++, cc /= 3)
                        buf[i] = want[i] = letters[cc % 3];
                    for(std::size_t i = N; i < N + G; i++)
                        buf[i] = want[i] = 'G';
                    char str[N + 1] = {};
                    std::size_t s2 = sv;
                    for(std::size_t i = 0; i < len; i++, s2 /= 2)
                        str[i] = want[i] = (s2 % 2) ? 'b' : 'a';
                    if(mode == 2)
                        for(std::size_t i = len; i < N; i++)
                            want[i] = '\0';
                    else if(mode == 1 && len < N)
                        want[len] = '\0';
                    arr_t<N> a{buf.data(), N};
                    const auto m = mode == 0 ? sbepp::eos_null::none : (mode == 1 ? sbepp::eos_null::single : sbepp::eos_null::all);
                    const auto it = a.assign_string(static_cast<const char*>(str), m);
                    cases++;
                    if(static_cast<std::size_t>(it - a.begin()) != len)
                        bad++;
                    for(std::size_t i = 0; i < N + G; i++)
                        if(buf[i] != want[i])
                        {
                            bad++;
                            break;
                        }
                }
    }
    return bad;
}

template<std::size_t N>
constexpr long check_strlen()
{
    const char letters[3] = {'\0', 'a', 'b'};
    long bad = 0;
    for(std::size_t c = 0; c < ipow(3, N); c++)
    {
        // the array is followed by a NUL so that a scan that runs past N still terminates inside the object
        std::array<char, N + 1> buf{};
        std::size_t cc = c, first = N, last = 0;
        for(std::size_t i = 0; i < N; i++, cc /= 3)
        {
            buf[i] = letters[cc % 3];
            if(buf[i] == '\0' && first == N)
                first = i;
            if(buf[i] != '\0')
                last = i + 1;
        }
        arr_t<N> a{buf.data(), N};
        if(a.strlen() != first)
            bad++;
        if(a.strlen_r() != last)
            bad++;
    }
    return bad;
}

template<std::size_t N>
constexpr long check_fill_assign()
{
    long bad = 0;
    for(std::size_t cnt = 0; cnt <= N; cnt++)
    {
        std::array<char, N + 2> buf{};
        for(auto& b : buf)
            b = 'G';
        arr_t<N> a{buf.data(), N};
        const auto it = a.assign(cnt, 'x');
        if(static_cast<std::size_t>(it - a.begin()) != cnt)
            bad++;
        for(std::size_t i = 0; i < N + 2; i++)
            if(buf[i] != (i < cnt ? 'x' : 'G'))
                bad++;
        a.fill('y');
        for(std::size_t i = 0; i < N + 2; i++)
            if(buf[i] != (i < N ? 'y' : 'G'))
                bad++;
    }
    return bad;
}

#define ALL(N)                                                                                 \
    static_assert(check_assign_string<N>() == 0, "constexpr assign_string(const char*) N=" #N); \
    static_assert(check_strlen<N>() == 0, "constexpr strlen / strlen_r N=" #N);                 \
    static_assert(check_fill_assign<N>() == 0, "constexpr fill / assign(cnt,v) N=" #N);

ALL(0)
ALL(1)
ALL(2)
ALL(3)

int main()
{
    long states = 0, tr = 0;
    for(std::size_t n = 0; n <= 3; n++)
    {
        std::size_t contents = ipow(3, n), inputs = 0;
        for(std::size_t len = 0; len <= n; len++)
            inputs += ipow(2, len);
        states += (long)contents;
        tr += (long)(contents * inputs * 3 + contents * 2 + (n + 1) * 2);
    }
    std::printf("STATS\tconstexpr/char[0..3]\tstates=%ld\ttransitions=%ld\n", states, tr);
}
