// C19 recording visitor. One *block* per bool-returning callback ("B <kind> <tag> <value>"), followed by the void
// callbacks that belong to it (enum value tag, set choices; lines starting with two spaces). Returns true at the
// stop_at-th block (0 = never) and then makes every enclosing callback return true as well.
#pragma once
#include "drv.hpp"

// generated per schema: const char* tagname(Tag) for every tag type
inline std::string tagname(const char* s)
{
    return std::string("str:") + s;
}
inline std::string tagname(::sbepp::unknown_enum_value_tag)
{
    return "unknown";
}

namespace rec
{
using drv::u64;

struct Rec
{
    std::string log;
    const unsigned char* base = nullptr;
    long stop_at = 0, blocks = 0;
    bool stopped = false;

    bool tick()
    {
        blocks++;
        if(stop_at && blocks == stop_at)
            stopped = true;
        return stopped;
    }
    template<typename P>
    std::string at(P p) const
    {
        return "@" + std::to_string((long)((const unsigned char*)p - base));
    }
    template<typename A>
    std::string bytes_of(A a) const
    {
        std::string s = " [";
        for(std::size_t i = 0; i < a.size(); i++)
            drv::hex_append(s, drv::raw_bits(a[i]), 1);
        return s + "]";
    }

    // ---- value rendering by representation kind
    template<typename T>
    typename std::enable_if<sbepp::is_non_array_type<T>::value>::type value(T v, bool&)
    {
        log += " =";
        drv::hex_append(log, drv::bits_of(v), sizeof(typename T::value_type));
        log += '\n';
    }
    // constants are plain values; a visitor is never handed one (constants are not visited), but if it happens the event
    // is logged so that the mismatch is reported as such instead of as a compile error of the recorder
    template<typename T>
    typename std::enable_if<std::is_arithmetic<T>::value>::type value(T v, bool&)
    {
        log += " =plain:";
        drv::hex_append(log, drv::raw_bits(v), sizeof(T));
        log += '\n';
    }
    template<typename T>
    typename std::enable_if<sbepp::is_enum<T>::value>::type value(T v, bool&)
    {
        log += " =";
        drv::hex_append(log, drv::bits_of(v), sizeof(T));
        log += '\n';
        sbepp::visit(v, *this);
    }
    template<typename T>
    typename std::enable_if<sbepp::is_set<T>::value>::type value(T v, bool&)
    {
        log += " =";
        drv::hex_append(log, drv::bits_of(v), sizeof(T));
        log += '\n';
        sbepp::visit(v, *this);
    }
    template<typename T>
    typename std::enable_if<sbepp::is_array_type<T>::value>::type value(T v, bool&)
    {
        log += " " + at(sbepp::addressof(v)) + bytes_of(v) + "\n";
    }
    template<typename T>
    typename std::enable_if<sbepp::is_composite<T>::value>::type value(T v, bool& descend)
    {
        log += " " + at(sbepp::addressof(v)) + "\n";
        descend = true;
    }
    template<typename T>
    typename std::enable_if<sbepp::is_composite<T>::value>::type descend_into(T v)
    {
        sbepp::visit_children(v, *this);
    }
    template<typename T>
    typename std::enable_if<!sbepp::is_composite<T>::value>::type descend_into(T)
    {
    }

    template<typename T, typename Tag>
    bool member(const char* kind, T v, Tag t)
    {
        log += std::string("B ") + kind + " " + tagname(t);
        bool descend = false;
        value(v, descend);
        if(tick())
            return true;
        if(descend)
            descend_into(v);
        return stopped;
    }

    // ---- callbacks
    template<typename T, typename Cursor, typename Tag>
    void on_message(T m, Cursor& c, Tag t)
    {
        log += "message " + tagname(t) + " " + at(sbepp::addressof(m)) + "\n";
        sbepp::visit_children(m, c, *this);
    }
    template<typename T, typename Cursor, typename Tag>
    bool on_group(T g, Cursor& c, Tag t)
    {
        log += "B group " + tagname(t) + " " + at(sbepp::addressof(g)) + " n=" + std::to_string((unsigned long long)g.size()) + "\n";
        if(tick())
            return true;
        sbepp::visit_children(g, c, *this);
        return stopped;
    }
    template<typename T, typename Cursor>
    bool on_entry(T e, Cursor& c)
    {
        log += "B entry " + at(sbepp::addressof(e)) + "\n";
        if(tick())
            return true;
        sbepp::visit_children(e, c, *this);
        return stopped;
    }
    template<typename T, typename Tag>
    bool on_data(T d, Tag t)
    {
        log += "B data " + tagname(t) + " " + at(sbepp::addressof(d)) + " len=" + std::to_string((unsigned long long)d.size()) + bytes_of(d) + "\n";
        return tick();
    }
    template<typename T, typename Tag>
    bool on_field(T v, Tag t)
    {
        return member("field", v, t);
    }
    template<typename T, typename Tag>
    bool on_type(T v, Tag t)
    {
        return member("type", v, t);
    }
    template<typename T, typename Tag>
    bool on_enum(T v, Tag t)
    {
        return member("enum", v, t);
    }
    template<typename T, typename Tag>
    bool on_set(T v, Tag t)
    {
        return member("set", v, t);
    }
    template<typename T, typename Tag>
    bool on_composite(T v, Tag t)
    {
        return member("composite", v, t);
    }
    template<typename T, typename Tag>
    void on_enum_value(T, Tag t)
    {
        log += "  enum_value " + tagname(t) + "\n";
    }
    template<typename Tag>
    void on_set_choice(bool b, Tag t)
    {
        log += "  choice " + tagname(t) + (b ? " 1" : " 0") + "\n";
    }
};

// splits the expected full log into its first k blocks (everything before the (k+1)-th "B " line)
inline std::string prefix_blocks(const std::string& full, long k)
{
    long seen = 0;
    std::size_t pos = 0;
    while(pos < full.size())
    {
        std::size_t nl = full.find('\n', pos);
        if(nl == std::string::npos)
            nl = full.size() - 1;
        if(full.compare(pos, 2, "B ") == 0)
        {
            seen++;
            if(seen == k + 1)
                return full.substr(0, pos);
        }
        pos = nl + 1;
    }
    return full;
}
} // namespace rec
