// C13: explicit-state exploration of sbepp::detail::dynamic_array_ref against std::vector.
// States: every element sequence over a 3-letter alphabet {0, A, B} of length <= CAP; *every* state is a start
// state; from each state every operation with every argument tuple that std::vector accepts and that fits CAP.
// Build: -DSBEPP_ENABLE_ASSERTS_WITH_HANDLER -DSCHEMA=lib_le|lib_be -DBIG=0|1 -DCAP=4
#include <sbepp/sbepp.hpp>
#define STR2(x) #x
#define STR(x) STR2(x)
#define HDR2(x) <x/x.hpp>
#include HDR2(SCHEMA)
#include "harness.hpp"
#include <iterator>
#include <map>
#include <set>
#include <string>
#include <vector>
#if __cplusplus >= 201703L
#    include <string_view>
#endif

VH_DEFINE_ASSERT_HANDLER

#ifndef CAP
#    define CAP 4
#endif

static long g_fail_printed = 0;
static std::map<std::string, long> g_fail_sigs;


// a *genuinely* single-pass input iterator (istream_iterator semantics): all copies share one stream position and each
// iterator caches the element it read; advancing any copy consumes the stream for all of them
template<typename V>
struct sp_stream
{
    const V* cur;
    const V* end;
};
template<typename V>
struct sp_it
{
    using iterator_category = std::input_iterator_tag;
    using value_type = V;
    using difference_type = std::ptrdiff_t;
    using pointer = const V*;
    using reference = const V&;
    sp_stream<V>* s = nullptr;
    V val{};
    sp_it() = default;
    explicit sp_it(sp_stream<V>* st) : s(st) { read(); }
    void read()
    {
        if(s && s->cur != s->end)
            val = *s->cur++;
        else
            s = nullptr;
    }
    reference operator*() const { return val; }
    sp_it& operator++() { read(); return *this; }
    sp_it operator++(int) { auto c = *this; read(); return c; }
    bool operator==(const sp_it& o) const { return s == o.s; }
    bool operator!=(const sp_it& o) const { return s != o.s; }
};

// an input-tagged iterator over a vector (multi-pass in effect: copies are independent)
template<typename V>
struct in_it
{
    using iterator_category = std::input_iterator_tag;
    using value_type = V;
    using difference_type = std::ptrdiff_t;
    using pointer = const V*;
    using reference = const V&;
    const V* p;
    reference operator*() const
    {
        return *p;
    }
    in_it& operator++()
    {
        ++p;
        return *this;
    }
    in_it operator++(int)
    {
        auto c = *this;
        ++p;
        return c;
    }
    bool operator==(const in_it& o) const
    {
        return p == o.p;
    }
    bool operator!=(const in_it& o) const
    {
        return p != o.p;
    }
};

template<typename V>
std::string show(const std::vector<V>& v)
{
    std::string s = "[";
    for(auto e : v)
    {
        s += std::to_string((int)e);
        s += ",";
    }
    return s + "]";
}

template<typename Byte, typename D>
struct explorer
{
    using V = typename D::value_type;
    using size_type = typename D::size_type;
    using vec = std::vector<V>;
    static constexpr std::size_t L = sizeof(size_type);
    static constexpr std::size_t FRONT = 8, BACK = 8;
    static constexpr std::size_t TOTAL = FRONT + L + CAP + BACK;

    const char* cfg;
    V alpha[3];
    unsigned char raw[TOTAL];
    unsigned char before[TOTAL];
    std::vector<vec> states;
    std::set<vec> successors;
    long transitions = 0, reads = 0, failures = 0;

    explicit explorer(const char* cfg_) : cfg(cfg_)
    {
        alpha[0] = V(0);
        alpha[1] = V(0x61);
        alpha[2] = std::is_signed<V>::value ? V(-30) : V(0xE2);
        // all sequences of length <= CAP
        std::vector<vec> level{vec{}};
        states.push_back(vec{});
        for(int n = 1; n <= CAP; n++)
        {
            std::vector<vec> next;
            for(auto& s : level)
                for(auto a : alpha)
                {
                    vec t = s;
                    t.push_back(a);
                    next.push_back(t);
                }
            for(auto& s : next)
                states.push_back(s);
            level = next;
        }
    }

    void put_len(std::uint64_t n)
    {
        for(std::size_t i = 0; i < L; i++)
        {
            unsigned char b = (unsigned char)(n >> (8 * i));
            raw[FRONT + (BIG ? (L - 1 - i) : i)] = b;
        }
    }
    std::uint64_t get_len() const
    {
        std::uint64_t n = 0;
        for(std::size_t i = 0; i < L; i++)
            n |= std::uint64_t(raw[FRONT + (BIG ? (L - 1 - i) : i)]) << (8 * i);
        return n;
    }
    void setup(const vec& s)
    {
        // position-dependent background: a stray copy of bytes from outside the payload must be visible
        for(std::size_t i = 0; i < TOTAL; i++)
            raw[i] = (unsigned char)(0x80 | ((i * 13 + 5) & 0x3f));
        put_len(s.size());
        for(std::size_t i = 0; i < s.size(); i++)
            raw[FRONT + L + i] = (unsigned char)s[i];
        std::memcpy(before, raw, TOTAL);
    }
    D view()
    {
        return D{reinterpret_cast<Byte*>(raw + FRONT), L + CAP};
    }

    void fail(const std::string& op, const std::string& opclass, const vec& s, const std::string& kind,
              const std::string& detail)
    {
        failures++;
        std::string sig = opclass + ":" + kind;
        if(g_fail_sigs[sig]++ < 3 && g_fail_printed < 200)
        {
            g_fail_printed++;
            std::printf("FAIL\t%s\t%s\t%s\t%s\t%s\t%s\n", sig.c_str(), cfg, show(s).c_str(), op.c_str(),
                        kind.c_str(), detail.c_str());
        }
    }

    // Runs one transition. impl returns the iterator offset (or -1 when the op returns void); model likewise.
    // unspecified_from: elements at index >= this are unspecified after the op (default_init), -1 = none.
    template<typename Impl, typename Model>
    void step(const vec& s, const std::string& op, const std::string& opclass, Impl impl, Model model,
              long unspecified_from = -1)
    {
        transitions++;
        setup(s);
        volatile long ret = -2;
        auto out = vh::guarded(
            [&]
            {
                D d = view();
                ret = impl(d);
            },
            2000);
        vec m = s;
        long mret = model(m);
        if(out.kind != vh::OK)
        {
            const char* k = out.kind == vh::HANDLER ? "HANDLER" : out.kind == vh::FAULT ? "FAULT" : "TIMEOUT";
            fail(op, opclass, s, k, out.expr ? out.expr : "");
            return;
        }
        if(get_len() != m.size())
        {
            fail(op, opclass, s, "SIZE", "got " + std::to_string(get_len()) + " want " + std::to_string(m.size()));
            return;
        }
        vec got;
        for(std::size_t i = 0; i < m.size(); i++)
            got.push_back((V)raw[FRONT + L + i]);
        bool same = true;
        for(std::size_t i = 0; i < m.size(); i++)
            if(unspecified_from < 0 || (long)i < unspecified_from)
                same = same && got[i] == m[i];
        if(!same)
        {
            fail(op, opclass, s, "CONTENT", "got " + show(got) + " want " + show(m));
            return;
        }
        if((long)ret != mret)
        {
            fail(op, opclass, s, "ITERATOR", "got " + std::to_string((long)ret) + " want " + std::to_string(mret));
            return;
        }
        // nothing outside prefix + payload area in use (max of old and new size) may change
        std::size_t used = std::max(s.size(), m.size());
        for(std::size_t i = 0; i < TOTAL; i++)
        {
            bool inside = i >= FRONT && i < FRONT + L + used;
            if(!inside && raw[i] != before[i])
            {
                fail(op, opclass, s, "OUTSIDE-WRITE", "byte " + std::to_string((long)i - (long)FRONT));
                return;
            }
        }
        successors.insert(unspecified_from < 0 ? got : m);
    }

    // all source sequences of length 0..maxlen over `letters`
    static std::vector<vec> sources(std::size_t maxlen, const std::vector<V>& letters)
    {
        std::vector<vec> all{vec{}}, level{vec{}};
        for(std::size_t n = 1; n <= maxlen; n++)
        {
            std::vector<vec> next;
            for(auto& s : level)
                for(auto a : letters)
                {
                    vec t = s;
                    t.push_back(a);
                    next.push_back(t);
                }
            for(auto& s : next)
                all.push_back(s);
            level = next;
        }
        return all;
    }

    void check_reads(const vec& s)
    {
        reads++;
        setup(s);
        std::string err;
        auto out = vh::guarded(
            [&]
            {
                D d = view();
                const unsigned char* pay = raw + FRONT + L;
                if(d.size() != s.size())
                    err = "size";
                if(d.sbe_size().value() != s.size())
                    err = "sbe_size";
                if(d.empty() != s.empty())
                    err = "empty";
                if((const unsigned char*)d.begin() != pay)
                    err = "begin";
                if((const unsigned char*)d.end() != pay + s.size())
                    err = "end";
                if((const unsigned char*)d.data() != pay)
                    err = "data";
                if(sbepp::size_bytes(d) != L + s.size())
                    err = "size_bytes";
                if((const unsigned char*)sbepp::addressof(d) != raw + FRONT)
                    err = "addressof";
                if((const unsigned char*)&*d.rbegin().base() != pay + s.size() && !s.empty())
                    err = "rbegin";
                if(d.rend().base() != d.begin())
                    err = "rend";
                for(std::size_t i = 0; i < s.size(); i++)
                    if(d[(size_type)i] != s[i])
                        err = "operator[]";
                if(!s.empty() && (d.front() != s.front() || d.back() != s.back()))
                    err = "front/back";
                std::size_t k = 0;
                for(auto e : d)
                {
                    if(e != s[k])
                        err = "iteration";
                    k++;
                }
                if(k != s.size())
                    err = "iteration count";
                k = s.size();
                for(auto it = d.rbegin(); it != d.rend(); ++it)
                {
                    k--;
                    if(*it != s[k])
                        err = "reverse iteration";
                }
                if(d.max_size() != D::sbe_size_type::max_value())
                    err = "max_size";
            },
            2000);
        if(out.kind != vh::OK)
            fail("reads", "reads", s, out.kind == vh::HANDLER ? "HANDLER" : "FAULT", out.expr ? out.expr : "");
        else if(!err.empty())
            fail("reads", "reads:" + err, s, "VALUE", err);
        else if(std::memcmp(raw, before, TOTAL) != 0)
            fail("reads", "reads", s, "OUTSIDE-WRITE", "a read wrote");
    }

    void run()
    {
        const std::vector<V> abc{alpha[0], alpha[1], alpha[2]};
        const std::vector<V> ab{alpha[1], alpha[2]};
        for(const vec& s : states)
        {
            check_reads(s);
            const std::size_t n = s.size(), room = CAP - n;
            auto S = [](std::size_t x) { return std::to_string(x); };
            // push_back / pop_back / clear
            if(room)
                for(V v : abc)
                    step(s, "push_back(" + S((int)v) + ")", "push_back",
                         [&](D d) { d.push_back(v); return -1L; },
                         [&](vec& m) { m.push_back(v); return -1L; });
            if(n)
                step(s, "pop_back", "pop_back", [&](D d) { d.pop_back(); return -1L; },
                     [&](vec& m) { m.pop_back(); return -1L; });
            step(s, "clear", "clear", [&](D d) { d.clear(); return -1L; },
                 [&](vec& m) { m.clear(); return -1L; });
            // insert(pos, v), insert(pos, cnt, v)
            for(std::size_t pos = 0; pos <= n; pos++)
            {
                const std::string pc = pos == n ? "end" : (pos == 0 ? "begin" : "mid");
                if(room)
                    for(V v : abc)
                        step(s, "insert(" + S(pos) + "," + S((int)v) + ")", "insert(pos=" + pc + ",v)",
                             [&](D d) { auto it = d.insert(d.begin() + pos, v); return long(it - d.begin()); },
                             [&](vec& m) { auto it = m.insert(m.begin() + pos, v); return long(it - m.begin()); });
                for(std::size_t cnt = 0; cnt <= room; cnt++)
                    for(V v : ab)
                        step(s, "insert(" + S(pos) + "," + S(cnt) + "x" + S((int)v) + ")",
                             "insert(pos=" + pc + ",cnt" + (cnt ? "" : "=0") + ",v)",
                             [&](D d) { auto it = d.insert(d.begin() + pos, (size_type)cnt, v); return long(it - d.begin()); },
                             [&](vec& m) { auto it = m.insert(m.begin() + pos, cnt, v); return long(it - m.begin()); });
                for(const vec& src : sources(room, abc))
                {
                    const std::string sc = src.empty() ? "=empty" : "";
                    step(s, "insert(" + S(pos) + ",fwd" + show(src) + ")", "insert(pos=" + pc + ",fwd-range" + sc + ")",
                         [&](D d) { auto it = d.insert(d.begin() + pos, src.data(), src.data() + src.size()); return long(it - d.begin()); },
                         [&](vec& m) { auto it = m.insert(m.begin() + pos, src.begin(), src.end()); return long(it - m.begin()); });
                    step(s, "insert(" + S(pos) + ",input" + show(src) + ")", "insert(pos=" + pc + ",input-range" + sc + ")",
                         [&](D d) {
                             auto it = d.insert(d.begin() + pos, in_it<V>{src.data()}, in_it<V>{src.data() + src.size()});
                             return long(it - d.begin());
                         },
                         [&](vec& m) { auto it = m.insert(m.begin() + pos, src.begin(), src.end()); return long(it - m.begin()); });
                    step(s, "insert(" + S(pos) + ",single-pass" + show(src) + ")", "insert(pos=" + pc + ",single-pass-range" + sc + ")",
                         [&](D d) {
                             sp_stream<V> st{src.data(), src.data() + src.size()};
                             auto it = d.insert(d.begin() + pos, sp_it<V>{&st}, sp_it<V>{});
                             return long(it - d.begin());
                         },
                         [&](vec& m) { auto it = m.insert(m.begin() + pos, src.begin(), src.end()); return long(it - m.begin()); });
                }
                // initializer lists (sizes fixed at compile time)
                {
                    const V A = alpha[1], B = alpha[2];
                    step(s, "insert(" + S(pos) + ",{})", "insert(pos=" + pc + ",ilist=empty)",
                         [&](D d) { auto it = d.insert(d.begin() + pos, std::initializer_list<V>{}); return long(it - d.begin()); },
                         [&](vec& m) { auto it = m.insert(m.begin() + pos, std::initializer_list<V>{}); return long(it - m.begin()); });
                    if(room >= 1)
                        step(s, "insert(" + S(pos) + ",{B})", "insert(pos=" + pc + ",ilist)",
                             [&](D d) { auto it = d.insert(d.begin() + pos, {B}); return long(it - d.begin()); },
                             [&](vec& m) { auto it = m.insert(m.begin() + pos, {B}); return long(it - m.begin()); });
                    if(room >= 2)
                        step(s, "insert(" + S(pos) + ",{A,B})", "insert(pos=" + pc + ",ilist)",
                             [&](D d) { auto it = d.insert(d.begin() + pos, {A, B}); return long(it - d.begin()); },
                             [&](vec& m) { auto it = m.insert(m.begin() + pos, {A, B}); return long(it - m.begin()); });
                    if(room >= 3)
                        step(s, "insert(" + S(pos) + ",{B,A,B})", "insert(pos=" + pc + ",ilist)",
                             [&](D d) { auto it = d.insert(d.begin() + pos, {B, A, B}); return long(it - d.begin()); },
                             [&](vec& m) { auto it = m.insert(m.begin() + pos, {B, A, B}); return long(it - m.begin()); });
                }
            }
            // erase(pos), erase(first,last)
            for(std::size_t pos = 0; pos < n; pos++)
                step(s, "erase(" + S(pos) + ")", pos + 1 == n ? "erase(pos=last)" : "erase(pos)",
                     [&](D d) { auto it = d.erase(d.begin() + pos); return long(it - d.begin()); },
                     [&](vec& m) { auto it = m.erase(m.begin() + pos); return long(it - m.begin()); });
            for(std::size_t f = 0; f <= n; f++)
                for(std::size_t l = f; l <= n; l++)
                {
                    std::string cls = std::string("erase(first") + (f == n ? "=end" : "") + ",last"
                                      + (l == n ? "=end" : "<end") + (f == l ? ",empty" : "") + ")";
                    step(s, "erase(" + S(f) + "," + S(l) + ")", cls,
                         [&](D d) { auto it = d.erase(d.begin() + f, d.begin() + l); return long(it - d.begin()); },
                         [&](vec& m) { auto it = m.erase(m.begin() + f, m.begin() + l); return long(it - m.begin()); });
                }
            // resize overloads
            for(std::size_t c = 0; c <= CAP; c++)
            {
                const std::string rc = c > n ? "grow" : (c < n ? "shrink" : "same");
                step(s, "resize(" + S(c) + ")", "resize(n)," + rc, [&](D d) { d.resize((size_type)c); return -1L; },
                     [&](vec& m) { m.resize(c); return -1L; });
                for(V v : ab)
                    step(s, "resize(" + S(c) + "," + S((int)v) + ")", "resize(n,v)," + rc,
                         [&](D d) { d.resize((size_type)c, v); return -1L; },
                         [&](vec& m) { m.resize(c, v); return -1L; });
                step(s, "resize(" + S(c) + ",default_init)", "resize(n,default_init)," + rc,
                     [&](D d) { d.resize((size_type)c, sbepp::default_init); return -1L; },
                     [&](vec& m) { m.resize(c); return -1L; }, (long)std::min(n, c));
                // assign(cnt, v)
                for(V v : abc)
                    step(s, "assign(" + S(c) + "x" + S((int)v) + ")", "assign(cnt,v)",
                         [&](D d) { d.assign((size_type)c, v); return -1L; },
                         [&](vec& m) { m.assign(c, v); return -1L; });
            }
            // assign(first,last), assign_range, assign_string: every source of length <= CAP
            for(const vec& src : sources(CAP, abc))
            {
                step(s, "assign(fwd" + show(src) + ")", "assign(fwd-range)",
                     [&](D d) { d.assign(src.data(), src.data() + src.size()); return -1L; },
                     [&](vec& m) { m.assign(src.begin(), src.end()); return -1L; });
                step(s, "assign(input" + show(src) + ")", "assign(input-range)",
                     [&](D d) { d.assign(in_it<V>{src.data()}, in_it<V>{src.data() + src.size()}); return -1L; },
                     [&](vec& m) { m.assign(src.begin(), src.end()); return -1L; });
                step(s, "assign(single-pass" + show(src) + ")", "assign(single-pass-range)",
                     [&](D d) { sp_stream<V> st{src.data(), src.data() + src.size()}; d.assign(sp_it<V>{&st}, sp_it<V>{}); return -1L; },
                     [&](vec& m) { m.assign(src.begin(), src.end()); return -1L; });
                step(s, "assign_range(vector" + show(src) + ")", "assign_range(vector)",
                     [&](D d) { d.assign_range(src); return -1L; },
                     [&](vec& m) { m.assign(src.begin(), src.end()); return -1L; });
                std::string str;
                for(V e : src)
                    str.push_back((char)e);
                step(s, "assign_range(string" + show(src) + ")", "assign_range(string)",
                     [&](D d) { d.assign_range(str); return -1L; },
                     [&](vec& m) { m.assign(src.begin(), src.end()); return -1L; });
#if __cplusplus >= 201703L
                step(s, "assign_range(string_view" + show(src) + ")", "assign_range(string_view)",
                     [&](D d) { d.assign_range(std::string_view{str}); return -1L; },
                     [&](vec& m) { m.assign(src.begin(), src.end()); return -1L; });
#endif
            }
            for(const vec& src : sources(CAP, ab))
            {
                std::string str;
                for(V e : src)
                    str.push_back((char)e);
                step(s, "assign_string(" + show(src) + ")", "assign_string",
                     [&](D d) { d.assign_string(str.c_str()); return -1L; },
                     [&](vec& m) { m.assign(src.begin(), src.end()); return -1L; });
            }
            {
                const V A = alpha[1], B = alpha[2];
                step(s, "assign({})", "assign(ilist=empty)", [&](D d) { d.assign(std::initializer_list<V>{}); return -1L; },
                     [&](vec& m) { m.assign(std::initializer_list<V>{}); return -1L; });
                step(s, "assign({B})", "assign(ilist)", [&](D d) { d.assign({B}); return -1L; },
                     [&](vec& m) { m.assign({B}); return -1L; });
                step(s, "assign({A,B,A})", "assign(ilist)", [&](D d) { d.assign({A, B, A}); return -1L; },
                     [&](vec& m) { m.assign({A, B, A}); return -1L; });
                step(s, "assign({B,A,B,A})", "assign(ilist)", [&](D d) { d.assign({B, A, B, A}); return -1L; },
                     [&](vec& m) { m.assign({B, A, B, A}); return -1L; });
            }
        }
        std::set<vec> st(states.begin(), states.end());
        long outside = 0;
        for(auto& x : successors)
            if(!st.count(x))
                outside++;
        std::printf("STATS\t%s\tstates=%zu\ttransitions=%ld\treads=%ld\tsuccessors=%zu\tsuccessors_outside_state_set=%ld\tfailures=%ld\n",
                    cfg, states.size(), transitions, reads, successors.size(), outside, failures);
    }
};

template<typename Byte>
void run_all(const char* bname)
{
    using M = SCHEMA::messages::m_data<Byte>;
#define RUN(member)                                                                  \
    {                                                                                \
        using D = decltype(std::declval<M>().member());                              \
        std::string cfg = std::string(STR(SCHEMA)) + "/" + bname + "/" + #member;    \
        static explorer<Byte, D> e{strdup(cfg.c_str())};                             \
        e.run();                                                                     \
    }
    RUN(d_u8_char)
    RUN(d_u8_u8)
    RUN(d_u8_i8)
    RUN(d_u16_char)
    RUN(d_u16_u8)
    RUN(d_u16_i8)
    RUN(d_u32_char)
    RUN(d_u32_u8)
    RUN(d_u32_i8)
    RUN(d_u64_char)
    RUN(d_u64_u8)
    RUN(d_u64_i8)
}

int main()
{
#if BYTESEL == 0
    run_all<char>("char");
#else
    run_all<unsigned char>("uchar");
#endif
    for(auto& kv : g_fail_sigs)
        std::printf("SIG\t%s\t%ld\n", kv.first.c_str(), kv.second);
    return 0;
}
