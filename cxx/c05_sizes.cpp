// C05 (large-value part): size arithmetic for every (numInGroup type, blockLength type) pair and every data length
// type with header values from {0, 1, 2, 3, max/2, max/2+1, max-1, max} written directly into a header-only guarded
// buffer (a flat group's size_bytes reads only its header). Oracle: 128-bit product; cases whose true size does not fit
// in size_t are excluded (the property's own precondition).
#include <sbepp/sbepp.hpp>
#define STR2(x) #x
#define STR(x) STR2(x)
#define HDR2(x) <x/x.hpp>
#include HDR2(SCHEMA)
#include "harness.hpp"
#include <map>
#include <string>
#include <vector>

VH_DEFINE_ASSERT_HANDLER

static std::map<std::string, long> g_sigs;
static long g_printed = 0, g_tr = 0, g_states = 0, g_excluded = 0;

static void fail(const char* cfg, const std::string& sig, const std::string& state, const std::string& op, const std::string& kind,
                 const std::string& detail)
{
    if(g_sigs[sig]++ < 2 && g_printed++ < 200)
        std::printf("FAIL\t%s\t%s\t%s\t%s\t%s\t%s\n", sig.c_str(), cfg, state.c_str(), op.c_str(), kind.c_str(), detail.c_str());
}

static void put(unsigned char* p, std::size_t width, unsigned long long v)
{
    for(std::size_t i = 0; i < width; i++)
        p[BIG ? (width - 1 - i) : i] = (unsigned char)(v >> (8 * i));
}

static std::vector<unsigned long long> vals(std::size_t width)
{
    unsigned long long mx = width == 8 ? ~0ull : ((1ull << (8 * width)) - 1);
    return {0, 1, 2, 3, mx / 2, mx / 2 + 1, mx - 1, mx};
}

static vh::guarded_buffer& gb()
{
    static vh::guarded_buffer b(4096);
    return b;
}

static std::string cls(unsigned __int128 size)
{
    if(size >= ((unsigned __int128)1 << 32))
        return ">=2^32";
    if(size >= ((unsigned __int128)1 << 31))
        return ">=2^31";
    return "<2^31";
}

template<typename G, int NW, int BW>
void flat_pair(const char* cfg)
{
    const std::size_t HDR = NW + BW;
    for(auto n : vals(NW))
        for(auto bl : vals(BW))
        {
            unsigned __int128 want = (unsigned __int128)HDR + (unsigned __int128)n * bl;
            if(want > (unsigned __int128)~0ull)
            {
                g_excluded++;
                continue;
            }
            g_states++;
            unsigned char* p = gb().at(HDR);
            put(p, BW, bl);
            put(p + BW, NW, n);
            volatile std::size_t got = 0, got_n = 0;
            auto out = vh::guarded(
                [&]
                {
                    G g{p, HDR};
                    got = sbepp::size_bytes(g);
                    got_n = g.size();
                },
                2000);
            g_tr += 2;
            const std::string st = "n=" + std::to_string(n) + ",bl=" + std::to_string(bl);
            if(out.kind != vh::OK)
                fail(cfg, std::string(cfg) + ":flat-size_bytes:outcome", st, "size_bytes(group)", out.kind == vh::HANDLER ? "HANDLER" : "FAULT", out.expr ? out.expr : "");
            else
            {
                if((unsigned __int128)got != want)
                    fail(cfg, std::string(cfg) + ":flat-size_bytes:" + cls(want), st, "size_bytes(group)", "VALUE",
                         "got " + std::to_string((unsigned long long)got) + " want " + std::to_string((unsigned long long)want));
                if(got_n != n)
                    fail(cfg, std::string(cfg) + ":size()", st, "size()", "VALUE", "");
            }
        }
}

template<typename D, int LW>
void data_len(const char* cfg)
{
    using size_type = typename D::size_type;
    for(auto len : vals(LW))
    {
        unsigned __int128 want = (unsigned __int128)LW + len;
        if(want > (unsigned __int128)~0ull)
        {
            g_excluded++;
            continue;
        }
        g_states++;
        unsigned char* p = gb().at(LW);
        put(p, LW, len);
        volatile std::size_t got = 0;
        auto out = vh::guarded([&] { D d{p, (std::size_t)LW}; got = sbepp::size_bytes(d); }, 2000);
        g_tr++;
        const std::string st = "len=" + std::to_string(len);
        if(out.kind != vh::OK)
            fail(cfg, std::string(cfg) + ":data-size_bytes:outcome", st, "size_bytes(data)", out.kind == vh::HANDLER ? "HANDLER" : "FAULT", out.expr ? out.expr : "");
        else if((unsigned __int128)got != want)
            fail(cfg, std::string(cfg) + ":data-size_bytes", st, "size_bytes(data)", "VALUE", "got " + std::to_string((unsigned long long)got));
        // trait-level arithmetic
        g_tr++;
        (void)sizeof(size_type);
    }
}

#define PAIR(NN, NW, BN, BW)                                                          \
    {                                                                                 \
        using M = SCHEMA::messages::m_##NN##_##BN<unsigned char>;                     \
        using F = decltype(std::declval<M>().f());                                    \
        flat_pair<F, NW, BW>("num=" #NN ",bl=" #BN);                                   \
        /* trait formula: header + n * compiled block length (1) */                   \
        for(auto n : vals(NW))                                                        \
        {                                                                             \
            using N = typename F::size_type;                                          \
            std::size_t t = sbepp::group_traits<SCHEMA::schema::messages::m_##NN##_##BN::f>::size_bytes((N)n); \
            g_tr++;                                                                   \
            unsigned __int128 want = (unsigned __int128)(NW + BW) + n;                \
            if(want <= (unsigned __int128)~0ull && (unsigned __int128)t != want)      \
                fail("num=" #NN ",bl=" #BN, "num=" #NN ",bl=" #BN ":group_traits::size_bytes", "n=" + std::to_string(n), "group_traits::size_bytes", "VALUE", \
                     "got " + std::to_string(t));                                     \
        }                                                                             \
    }

#define DATA(LN, LW)                                                                  \
    {                                                                                 \
        using M = SCHEMA::messages::m_data<unsigned char>;                            \
        using D = decltype(std::declval<M>().d_##LN##_u8());                          \
        data_len<D, LW>("len=" #LN);                                                  \
        for(auto len : vals(LW))                                                      \
        {                                                                             \
            using L = typename D::size_type;                                          \
            unsigned __int128 want = (unsigned __int128)LW + len;                     \
            if(want > (unsigned __int128)~0ull)                                       \
                continue;                                                             \
            std::size_t t = sbepp::data_traits<SCHEMA::schema::messages::m_data::d_##LN##_u8>::size_bytes((L)len); \
            g_tr++;                                                                   \
            if((unsigned __int128)t != want)                                          \
                fail("len=" #LN, "len=" #LN ":data_traits::size_bytes", "len=" + std::to_string(len), "data_traits::size_bytes", "VALUE", "got " + std::to_string(t)); \
        }                                                                             \
    }

int main()
{
#define ROW(NN, NW) PAIR(NN, NW, u8, 1) PAIR(NN, NW, u16, 2) PAIR(NN, NW, u32, 4) PAIR(NN, NW, u64, 8)
    ROW(u8, 1)
    ROW(u16, 2)
    ROW(u32, 4)
    ROW(u64, 8)
    DATA(u8, 1)
    DATA(u16, 2)
    DATA(u32, 4)
    DATA(u64, 8)
    std::printf("STATS\t%s\tstates=%ld\ttransitions=%ld\texcluded_not_fitting_size_t=%ld\n", STR(SCHEMA), g_states, g_tr, g_excluded);
    for(auto& kv : g_sigs)
        std::printf("SIG\t%s\t%ld\n", kv.first.c_str(), kv.second);
}
