// C15: set choices are independent bits. For width 8 and 16 the whole value space is enumerated (complete state
// space); for 32/64 a structured alphabet (0, ~0, walking 1, walking 0, 0x55.., 0xAA.., 2^31+-1, 2^32+-1, 2^63..).
// Per (value, index): named getter, named setter(false/true), get_by_tag, set_by_tag; per value: visit (each
// choice once, schema order, with its bit), deprecated visit_set, operator*, ==, !=; field round trip through a
// message buffer (schema byte order). C++14+: a table of static_asserts for constant evaluation.
#include <sbepp/sbepp.hpp>
#define STR2(x) #x
#define STR(x) STR2(x)
#define HDR2(x) <x/x.hpp>
#include HDR2(SCHEMA)
#include "harness.hpp"
#include <map>
#include <string>
#include <vector>

VH_DEFINE_ASSERT_HANDLER

#define IDX8(X) X(0) X(1) X(2) X(3) X(4) X(5) X(6) X(7)
#define IDX16(X) X(0) X(1) X(2) X(3) X(4) X(5) X(6) X(7) X(8) X(9) X(10) X(11) X(12) X(13) X(14) X(15)
#define IDX32(X) X(0) X(1) X(2) X(3) X(4) X(5) X(6) X(7) X(8) X(9) X(10) X(11) X(12) X(13) X(14) X(15) X(16) X(17) X(18) X(19) X(20) X(21) X(22) X(23) X(24) X(25) X(26) X(27) X(28) X(29) X(30) X(31)
#define IDX64(X) X(0) X(1) X(2) X(3) X(4) X(5) X(6) X(7) X(8) X(9) X(10) X(11) X(12) X(13) X(14) X(15) X(16) X(17) X(18) X(19) X(20) X(21) X(22) X(23) X(24) X(25) X(26) X(27) X(28) X(29) X(30) X(31) X(32) X(33) X(34) X(35) X(36) X(37) X(38) X(39) X(40) X(41) X(42) X(43) X(44) X(45) X(46) X(47) X(48) X(49) X(50) X(51) X(52) X(53) X(54) X(55) X(56) X(57) X(58) X(59) X(60) X(61) X(62) X(63)

static std::map<std::string, long> g_sigs;
static long g_printed = 0;
static long g_failures = 0;

static void fail(const char* cfg, const std::string& cls, unsigned long long v, int idx, const std::string& op,
                 const std::string& detail)
{
    g_failures++;
    std::string sig = cls;
    if(g_sigs[sig]++ < 3 && g_printed++ < 200)
        std::printf("FAIL\t%s\t%s\tvalue=0x%llx\t%s idx=%d\tVALUE\t%s\n", sig.c_str(), cfg, v, op.c_str(), idx, detail.c_str());
}

template<int W>
std::string idx_class(int i)
{
    // classes where int arithmetic breaks differ: <31, 31, >=32
    if(W <= 16)
        return "idx<16";
    if(i < 31)
        return "idx<31";
    if(i == 31)
        return "idx=31";
    return "idx>=32";
}

template<typename S, typename U, int W>
struct visitor_rec
{
    std::vector<std::pair<int, bool>> seen;
    template<typename Tag>
    void on_set_choice(bool b, Tag)
    {
        seen.emplace_back((int)sbepp::set_choice_traits<Tag>::index(), b);
    }
};

template<typename S, typename U, int W, typename Tags>
struct ops;

template<typename S, typename U, int W>
struct explorer
{
    const char* cfg;
    long states, transitions;
    explicit explorer(const char* c) : cfg(c), states(0), transitions(0) {}
    std::string wname() const { return "w" + std::to_string(W); }

    template<typename Tag, typename Get, typename Set>
    void per_index(U v, int i, Get get, Set set)
    {
        const bool want = (v >> i) & 1;
        const std::string ic = idx_class<W>(i);
        {
            S s{v};
            transitions++;
            if(get(s) != want)
                fail(cfg, wname() + ":get(named):" + ic, v, i, "get", "want " + std::to_string(want));
            transitions++;
            if(sbepp::get_by_tag<Tag>(s) != want)
                fail(cfg, wname() + ":get_by_tag:" + ic, v, i, "get_by_tag", "want " + std::to_string(want));
            if(*s != v)
                fail(cfg, wname() + ":getter-mutates:" + ic, v, i, "get", "value changed");
        }
        for(int b = 0; b < 2; b++)
        {
            const U exp = (U)((v & ~(U(1) << i)) | (U(b) << i));
            {
                S s{v};
                transitions++;
                S& r = set(s, (bool)b);
                if(*s != exp)
                    fail(cfg, wname() + ":set(named):" + ic, v, i, b ? "set(true)" : "set(false)",
                         "got 0x" + vh::hex((const unsigned char*)&*s, 0) + std::to_string((unsigned long long)*s) + " want "
                             + std::to_string((unsigned long long)exp));
                if(&r != &s)
                    fail(cfg, wname() + ":set-returns-other-object", v, i, "set", "returned reference is not *this");
            }
            {
                S s{v};
                transitions++;
                sbepp::set_by_tag<Tag>(s, (bool)b);
                if(*s != exp)
                    fail(cfg, wname() + ":set_by_tag:" + ic, v, i, b ? "set_by_tag(true)" : "set_by_tag(false)",
                         "got " + std::to_string((unsigned long long)*s) + " want " + std::to_string((unsigned long long)exp));
            }
        }
    }

    void per_value(U v);

    void run(const std::vector<U>& values)
    {
        for(U v : values)
        {
            states++;
            per_value(v);
        }
        std::printf("STATS\t%s\twidth=%d\tstates=%ld\ttransitions=%ld\n", cfg, W, states, transitions);
    }

    void common(U v)
    {
        // raw access, equality
        S s{v};
        transitions++;
        if(*s != v)
            fail(cfg, wname() + ":operator*", v, -1, "operator*", "");
        S t{};
        if(*t != 0)
            fail(cfg, wname() + ":default-ctor", v, -1, "S{}", "not zero");
        *t = v;
        if(!(s == t) || (s != t))
            fail(cfg, wname() + ":equality", v, -1, "==", "equal values compare unequal");
        *t = (U)(v ^ (U(1) << (W - 1)));
        if((s == t) || !(s != t))
            fail(cfg, wname() + ":equality-high-bit", v, -1, "==", "values differing in the top bit compare equal");
        *t = (U)(v ^ 1);
        if((s == t) || !(s != t))
            fail(cfg, wname() + ":equality", v, -1, "==", "values differing in bit 0 compare equal");
        // visit: every choice once, schema (= index) order, with its bit
        transitions++;
        auto vis = sbepp::visit<visitor_rec<S, U, W>>(s);
        bool ok = vis.seen.size() == (std::size_t)W;
        for(int i = 0; ok && i < W; i++)
            ok = vis.seen[i].first == i && vis.seen[i].second == (bool)((v >> i) & 1);
        if(!ok)
        {
            int bad = -1;
            for(int i = 0; i < W && i < (int)vis.seen.size(); i++)
                if(vis.seen[i].first != i || vis.seen[i].second != (bool)((v >> i) & 1))
                {
                    bad = i;
                    break;
                }
            fail(cfg, wname() + ":visit:" + (bad >= 0 ? idx_class<W>(bad) : "count"), v, bad, "visit", "choice list/bit mismatch");
        }
        // deprecated visit_set(name based)
        transitions++;
        int k = 0;
        bool ok2 = true;
        sbepp::visit_set(s, [&](bool b, const char* name) {
            std::string want = "c" + std::to_string(k);
            if(want != name || b != (bool)((v >> k) & 1))
                ok2 = false;
            k++;
        });
        if(!ok2 || k != W)
            fail(cfg, wname() + ":visit_set", v, -1, "visit_set", "mismatch");
    }
};

#define DEF_PER_VALUE(W_, U_, SET_, IDXM)                                                                   \
    template<>                                                                                              \
    void explorer<SCHEMA::types::SET_, U_, W_>::per_value(U_ v)                                              \
    {                                                                                                       \
        using S = SCHEMA::types::SET_;                                                                       \
        common(v);
#define PER_IDX(SET_, I)                                                                                    \
    per_index<SCHEMA::schema::types::SET_::c##I>(                                                            \
        v, I, [](const S& s) { return s.c##I(); }, [](S& s, bool b) -> S& { return s.c##I(b); });

DEF_PER_VALUE(8, std::uint8_t, s8, IDX8)
#define X(I) PER_IDX(s8, I)
IDX8(X)
#undef X
}
DEF_PER_VALUE(16, std::uint16_t, s16, IDX16)
#define X(I) PER_IDX(s16, I)
IDX16(X)
#undef X
}
DEF_PER_VALUE(32, std::uint32_t, s32, IDX32)
#define X(I) PER_IDX(s32, I)
IDX32(X)
#undef X
}
DEF_PER_VALUE(64, std::uint64_t, s64, IDX64)
#define X(I) PER_IDX(s64, I)
IDX64(X)
#undef X
}

template<typename U, int W>
std::vector<U> structured()
{
    std::vector<U> v{0, (U)~U(0)};
    for(int i = 0; i < W; i++)
    {
        v.push_back(U(1) << i);
        v.push_back((U) ~(U(1) << i));
    }
    U p5 = 0, pa = 0;
    for(int i = 0; i < W; i += 2)
    {
        p5 |= U(1) << i;
        pa |= U(1) << (i + 1);
    }
    v.push_back(p5);
    v.push_back(pa);
    const unsigned long long extra[] = {0x7fffffffull, 0x80000000ull, 0x80000001ull, 0xffffffffull, 0x100000000ull,
                                        0x100000001ull, 0x7fffffffffffffffull, 0x8000000000000000ull,
                                        0x0123456789abcdefull, 0xfedcba9876543210ull, 0xdeadbeefcafef00dull};
    for(auto e : extra)
        v.push_back((U)e);
    return v;
}

// message field round trip in the schema byte order (set stored in / loaded from a buffer)
template<typename U, typename Get, typename Set>
void field_roundtrip(const char* cfg, int W, std::size_t off, const std::vector<U>& values, Get get, Set set, long& tr)
{
    for(U v : values)
    {
        unsigned char buf[8 + 15 + 8];
        std::memset(buf, 0xEE, sizeof(buf));
        tr++;
        set(buf, v);
        for(std::size_t i = 0; i < sizeof(U); i++)
        {
            unsigned char want = (unsigned char)(v >> (8 * (BIG ? (sizeof(U) - 1 - i) : i)));
            if(buf[8 + off + i] != want)
            {
                fail(cfg, "w" + std::to_string(W) + ":field-wire-bytes", v, -1, "field set", "byte " + std::to_string(i));
                break;
            }
        }
        for(std::size_t i = 0; i < sizeof(buf); i++)
            if((i < 8 + off || i >= 8 + off + sizeof(U)) && buf[i] != 0xEE)
            {
                fail(cfg, "w" + std::to_string(W) + ":field-outside-write", v, -1, "field set", "byte " + std::to_string(i));
                break;
            }
        tr++;
        if(get(buf) != v)
            fail(cfg, "w" + std::to_string(W) + ":field-get", v, -1, "field get", "");
    }
}

#if __cplusplus >= 201402L && !defined(VERIF_NO_CONSTEXPR)
// constant evaluation of a subset: walking bits through named accessors and by-tag access
namespace ce
{
template<typename S, typename U>
constexpr U set_named_hi(U v, bool b);
#    define CE_CASE(SET_, U_, HI, V)                                                                                         \
        static_assert(SCHEMA::types::SET_{(U_)(V)}.c##HI() == (bool)((((U_)(V)) >> HI) & 1), "constexpr get hi " #SET_);       \
        static_assert(SCHEMA::types::SET_{(U_)(V)}.c0() == (bool)(((U_)(V)) & 1), "constexpr get 0 " #SET_);                 \
        static_assert(sbepp::get_by_tag<SCHEMA::schema::types::SET_::c##HI>(SCHEMA::types::SET_{(U_)(V)})                   \
                          == (bool)((((U_)(V)) >> HI) & 1),                                                                  \
                      "constexpr get_by_tag " #SET_);
CE_CASE(s8, std::uint8_t, 7, 0x80)
CE_CASE(s8, std::uint8_t, 7, 0x7f)
CE_CASE(s16, std::uint16_t, 15, 0x8000)
CE_CASE(s16, std::uint16_t, 15, 0x7fff)
CE_CASE(s32, std::uint32_t, 30, 0x40000000u)
CE_CASE(s32, std::uint32_t, 30, 0xbfffffffu)
CE_CASE(s32, std::uint32_t, 31, 0x80000000u)
CE_CASE(s32, std::uint32_t, 31, 0x7fffffffu)
CE_CASE(s64, std::uint64_t, 31, 0x80000000ull)
CE_CASE(s64, std::uint64_t, 31, 0xffffffff7fffffffull)
CE_CASE(s64, std::uint64_t, 32, 0x100000000ull)
CE_CASE(s64, std::uint64_t, 63, 0x8000000000000000ull)
CE_CASE(s64, std::uint64_t, 63, 0x7fffffffffffffffull)
#    define CE_SET(SET_, U_, I, V, B)                                                                                        \
        constexpr U_ ce_##SET_##_##I##_##B()                                                                                 \
        {                                                                                                                    \
            SCHEMA::types::SET_ s{(U_)(V)};                                                                                  \
            s.c##I(B);                                                                                                       \
            return *s;                                                                                                       \
        }                                                                                                                    \
        static_assert(ce_##SET_##_##I##_##B() == (U_)((((U_)(V)) & ~((U_)1 << I)) | ((U_)(B) << I)), "constexpr set " #SET_);
CE_SET(s8, std::uint8_t, 7, 0x55, true)
CE_SET(s8, std::uint8_t, 0, 0xff, false)
CE_SET(s16, std::uint16_t, 15, 0x5555, true)
CE_SET(s16, std::uint16_t, 15, 0xffff, false)
CE_SET(s32, std::uint32_t, 30, 0x15555555u, true)
CE_SET(s32, std::uint32_t, 30, 0xffffffffu, false)
CE_SET(s32, std::uint32_t, 31, 0x55555555u, true)
CE_SET(s32, std::uint32_t, 31, 0xffffffffu, false)
CE_SET(s64, std::uint64_t, 31, 0x5555555555555555ull, true)
CE_SET(s64, std::uint64_t, 31, 0xffffffffffffffffull, false)
CE_SET(s64, std::uint64_t, 40, 0, true)
CE_SET(s64, std::uint64_t, 63, 0x5555555555555555ull, true)
CE_SET(s64, std::uint64_t, 63, 0xffffffffffffffffull, false)
} // namespace ce
#    define CE_COUNT 62
#else
#    define CE_COUNT 0
#endif

int main()
{
    {
        std::vector<std::uint8_t> all;
        for(int v = 0; v < 256; v++)
            all.push_back((std::uint8_t)v);
        explorer<SCHEMA::types::s8, std::uint8_t, 8> e{STR(SCHEMA) "/s8"};
        e.run(all);
    }
    {
        std::vector<std::uint16_t> all;
        for(int v = 0; v < 65536; v++)
            all.push_back((std::uint16_t)v);
        explorer<SCHEMA::types::s16, std::uint16_t, 16> e{STR(SCHEMA) "/s16"};
        e.run(all);
    }
    {
        explorer<SCHEMA::types::s32, std::uint32_t, 32> e{STR(SCHEMA) "/s32"};
        e.run(structured<std::uint32_t, 32>());
    }
    {
        explorer<SCHEMA::types::s64, std::uint64_t, 64> e{STR(SCHEMA) "/s64"};
        e.run(structured<std::uint64_t, 64>());
    }
    {
        using M = SCHEMA::messages::m_sets<unsigned char>;
        long tr = 0;
        const std::size_t H = 8; // message header
        field_roundtrip<std::uint8_t>(STR(SCHEMA) "/m_sets.f8", 8, H + 0, structured<std::uint8_t, 8>(),
            [](unsigned char* b) { return *M{b + 8, 23}.f8(); }, [](unsigned char* b, std::uint8_t v) { M{b + 8, 23}.f8(SCHEMA::types::s8{v}); }, tr);
        field_roundtrip<std::uint16_t>(STR(SCHEMA) "/m_sets.f16", 16, H + 1, structured<std::uint16_t, 16>(),
            [](unsigned char* b) { return *M{b + 8, 23}.f16(); }, [](unsigned char* b, std::uint16_t v) { M{b + 8, 23}.f16(SCHEMA::types::s16{v}); }, tr);
        field_roundtrip<std::uint32_t>(STR(SCHEMA) "/m_sets.f32", 32, H + 3, structured<std::uint32_t, 32>(),
            [](unsigned char* b) { return *M{b + 8, 23}.f32(); }, [](unsigned char* b, std::uint32_t v) { M{b + 8, 23}.f32(SCHEMA::types::s32{v}); }, tr);
        field_roundtrip<std::uint64_t>(STR(SCHEMA) "/m_sets.f64", 64, H + 7, structured<std::uint64_t, 64>(),
            [](unsigned char* b) { return *M{b + 8, 23}.f64(); }, [](unsigned char* b, std::uint64_t v) { M{b + 8, 23}.f64(SCHEMA::types::s64{v}); }, tr);
        std::printf("STATS\t%s/fields\tstates=0\ttransitions=%ld\tconstexpr_asserts=%d\n", STR(SCHEMA), tr, CE_COUNT);
    }
    for(auto& kv : g_sigs)
        std::printf("SIG\t%s\t%ld\n", kv.first.c_str(), kv.second);
}
