// C13, constant-evaluation part (C++20 and later): the closed state space -- every content over {x,y,z} of length <= 4
// in a buffer with room for CAP = 5 elements -- and from every state every operation with every argument tuple that fits,
// evaluated inside constant expressions and compared there with a plain array model (length prefix, payload, returned
// iterator, position-dependent background after the payload). Constant evaluation takes other library paths than the
// run-time build (no memmove lowering of std::copy, is_constant_evaluated branches of the byte-order code).
#include <sbepp/sbepp.hpp>
#include <array>
#include <cstdio>

#ifndef LEN_T
#    define LEN_T sbepp::uint8_t
#endif
#ifndef ENDIAN
#    define ENDIAN sbepp::endian::little
#endif

constexpr std::size_t CAP = 5, MAXN = 4, LSZ = sizeof(LEN_T::value_type), TOTAL = LSZ + CAP + 2;
using dar_t = sbepp::detail::dynamic_array_ref<char, char, LEN_T, ENDIAN>;

constexpr char bg(std::size_t i)
{
    return static_cast<char>(0x21 + 7 * i);
}

struct model
{
    char d[CAP + 2] = {};
    std::size_t n = 0;

    constexpr void insert(std::size_t pos, std::size_t cnt, char v)
    {
        for(std::size_t i = n; i > pos; i--)
            d[i - 1 + cnt] = d[i - 1];
        for(std::size_t i = 0; i < cnt; i++)
            d[pos + i] = v;
        n += cnt;
    }
    constexpr void erase(std::size_t first, std::size_t last)
    {
        for(std::size_t i = last; i < n; i++)
            d[first + (i - last)] = d[i];
        n -= last - first;
    }
};

struct world
{
    std::array<char, TOTAL> buf{};
    model m{};
    std::size_t old_n = 0;

    constexpr explicit world(std::size_t code, std::size_t len)
    {
        for(std::size_t i = 0; i < TOTAL; i++)
            buf[i] = bg(i);
        dar_t a{buf.data(), TOTAL};
        a.resize(static_cast<dar_t::size_type>(len));
        for(std::size_t i = 0; i < len; i++, code /= 3)
        {
            m.d[i] = static_cast<char>('x' + code % 3);
            a[static_cast<dar_t::size_type>(i)] = m.d[i];
        }
        m.n = old_n = len;
    }
    constexpr dar_t view()
    {
        return dar_t{buf.data(), TOTAL};
    }
    // 0 = agreement
    constexpr int diff(std::size_t lo_unspecified = 0, std::size_t hi_unspecified = 0)
    {
        dar_t a{buf.data(), TOTAL};
        if(a.size() != m.n)
            return 1;
        for(std::size_t i = 0; i < m.n; i++)
            if(!(i >= lo_unspecified && i < hi_unspecified) && buf[LSZ + i] != m.d[i])
                return 2;
        const std::size_t used = m.n > old_n ? m.n : old_n;
        for(std::size_t i = LSZ + used; i < TOTAL; i++)
            if(buf[i] != bg(i))
                return 3;
        return 0;
    }
};

constexpr std::size_t ipow3(std::size_t e)
{
    std::size_t r = 1;
    for(std::size_t i = 0; i < e; i++)
        r *= 3;
    return r;
}

// one family of operations per function, so that a failing static_assert names the family
template<typename F>
constexpr long for_all_states(F f)
{
    long bad = 0;
    for(std::size_t len = 0; len <= MAXN; len++)
        for(std::size_t code = 0; code < ipow3(len); code++)
            bad += f(code, len);
    return bad;
}

constexpr long check_insert_count()
{
    return for_all_states(
        [](std::size_t code, std::size_t len)
        {
            long bad = 0;
            for(std::size_t pos = 0; pos <= len; pos++)
                for(std::size_t cnt = 0; len + cnt <= CAP; cnt++)
                {
                    world w{code, len};
                    auto a = w.view();
                    const auto it = a.insert(a.begin() + pos, static_cast<dar_t::size_type>(cnt), '-');
                    w.m.insert(pos, cnt, '-');
                    bad += (w.diff() != 0) + (static_cast<std::size_t>(it - a.begin()) != pos);
                }
            return bad;
        });
}

constexpr long check_insert_one_and_range()
{
    return for_all_states(
        [](std::size_t code, std::size_t len)
        {
            long bad = 0;
            const char src[3] = {'p', 'q', 'r'};
            for(std::size_t pos = 0; pos <= len; pos++)
            {
                if(len + 1 <= CAP)
                {
                    world w{code, len};
                    auto a = w.view();
                    const auto it = a.insert(a.begin() + pos, '+');
                    w.m.insert(pos, 1, '+');
                    bad += (w.diff() != 0) + (static_cast<std::size_t>(it - a.begin()) != pos);
                }
                for(std::size_t k = 0; k <= 3 && len + k <= CAP; k++)
                {
                    world w{code, len};
                    auto a = w.view();
                    const auto it = a.insert(a.begin() + pos, src, src + k);
                    for(std::size_t i = 0; i < k; i++)
                        w.m.insert(pos + i, 1, src[i]);
                    bad += (w.diff() != 0) + (static_cast<std::size_t>(it - a.begin()) != pos);
                }
                if(len + 2 <= CAP)
                {
                    world w{code, len};
                    auto a = w.view();
                    const auto it = a.insert(a.begin() + pos, {'s', 't'});
                    w.m.insert(pos, 1, 's');
                    w.m.insert(pos + 1, 1, 't');
                    bad += (w.diff() != 0) + (static_cast<std::size_t>(it - a.begin()) != pos);
                }
            }
            return bad;
        });
}

constexpr long check_erase()
{
    return for_all_states(
        [](std::size_t code, std::size_t len)
        {
            long bad = 0;
            for(std::size_t first = 0; first <= len; first++)
                for(std::size_t last = first; last <= len; last++)
                {
                    world w{code, len};
                    auto a = w.view();
                    const auto it = a.erase(a.begin() + first, a.begin() + last);
                    w.m.erase(first, last);
                    bad += (w.diff() != 0) + (static_cast<std::size_t>(it - a.begin()) != first);
                }
            for(std::size_t pos = 0; pos < len; pos++)
            {
                world w{code, len};
                auto a = w.view();
                const auto it = a.erase(a.begin() + pos);
                w.m.erase(pos, pos + 1);
                bad += (w.diff() != 0) + (static_cast<std::size_t>(it - a.begin()) != pos);
            }
            return bad;
        });
}

constexpr long check_push_pop_resize_clear()
{
    return for_all_states(
        [](std::size_t code, std::size_t len)
        {
            long bad = 0;
            if(len + 1 <= CAP)
            {
                world w{code, len};
                w.view().push_back('!');
                w.m.insert(len, 1, '!');
                bad += w.diff() != 0;
            }
            if(len)
            {
                world w{code, len};
                w.view().pop_back();
                w.m.erase(len - 1, len);
                bad += w.diff() != 0;
            }
            {
                world w{code, len};
                w.view().clear();
                w.m.n = 0;
                bad += w.diff() != 0;
            }
            for(std::size_t n = 0; n <= CAP; n++)
            {
                {
                    world w{code, len};
                    w.view().resize(static_cast<dar_t::size_type>(n), '#');
                    if(n > len)
                        w.m.insert(len, n - len, '#');
                    else
                        w.m.n = n;
                    bad += w.diff() != 0;
                }
                {
                    world w{code, len};
                    w.view().resize(static_cast<dar_t::size_type>(n));
                    if(n > len)
                        w.m.insert(len, n - len, '\0');
                    else
                        w.m.n = n;
                    bad += w.diff() != 0;
                }
                {
                    world w{code, len};
                    w.view().resize(static_cast<dar_t::size_type>(n), sbepp::default_init);
                    w.m.n = n;
                    bad += w.diff(len, n) != 0; // new elements unspecified
                }
            }
            return bad;
        });
}

constexpr long check_assign()
{
    return for_all_states(
        [](std::size_t code, std::size_t len)
        {
            long bad = 0;
            const char src[4] = {'p', 'q', 'r', '\0'};
            for(std::size_t n = 0; n <= CAP; n++)
            {
                world w{code, len};
                w.view().assign(static_cast<dar_t::size_type>(n), '=');
                w.m.n = 0;
                w.m.insert(0, n, '=');
                bad += w.diff() != 0;
            }
            for(std::size_t k = 0; k <= 3; k++)
            {
                world w{code, len};
                w.view().assign(src, src + k);
                w.m.n = 0;
                for(std::size_t i = 0; i < k; i++)
                    w.m.insert(i, 1, src[i]);
                bad += w.diff() != 0;
            }
            {
                world w{code, len};
                w.view().assign({'s', 't', 'u'});
                w.m.n = 0;
                w.m.insert(0, 1, 's');
                w.m.insert(1, 1, 't');
                w.m.insert(2, 1, 'u');
                bad += w.diff() != 0;
            }
            {
                world w{code, len};
                w.view().assign_string(static_cast<const char*>(src));
                w.m.n = 0;
                for(std::size_t i = 0; i < 3; i++)
                    w.m.insert(i, 1, src[i]);
                bad += w.diff() != 0;
            }
            {
                world w{code, len};
                const std::array<char, 2> r{'v', 'w'};
                w.view().assign_range(r);
                w.m.n = 0;
                w.m.insert(0, 1, 'v');
                w.m.insert(1, 1, 'w');
                bad += w.diff() != 0;
            }
            return bad;
        });
}

constexpr long check_reads()
{
    return for_all_states(
        [](std::size_t code, std::size_t len)
        {
            long bad = 0;
            world w{code, len};
            auto a = w.view();
            bad += a.size() != len;
            bad += a.empty() != (len == 0);
            bad += static_cast<std::size_t>(a.end() - a.begin()) != len;
            std::size_t i = 0;
            for(auto c : a)
                bad += c != w.m.d[i++];
            for(std::size_t k = 0; k < len; k++)
                bad += a[static_cast<dar_t::size_type>(k)] != w.m.d[k];
            if(len)
                bad += (a.front() != w.m.d[0]) + (a.back() != w.m.d[len - 1]);
            bad += sbepp::size_bytes(a) != LSZ + len;
            return bad;
        });
}

static_assert(check_insert_count() == 0, "constexpr insert(pos, count, value)");
static_assert(check_insert_one_and_range() == 0, "constexpr insert(pos, value) / insert(pos, first, last) / insert(pos, ilist)");
static_assert(check_erase() == 0, "constexpr erase(first, last) / erase(pos)");
static_assert(check_push_pop_resize_clear() == 0, "constexpr push_back / pop_back / clear / resize overloads");
static_assert(check_assign() == 0, "constexpr assign overloads / assign_string / assign_range");
static_assert(check_reads() == 0, "constexpr read accessors");

int main()
{
    long states = 0, tr = 0;
    for(std::size_t len = 0; len <= MAXN; len++)
    {
        const long s = static_cast<long>(ipow3(len));
        states += s;
        long per = 0;
        per += static_cast<long>((len + 1) * (CAP - len + 1));                          // insert(pos,cnt,v)
        per += static_cast<long>((len + 1) * ((len + 1 <= CAP) + (CAP - len < 3 ? CAP - len + 1 : 4) + (len + 2 <= CAP))); // insert one/range/ilist
        per += static_cast<long>((len + 1) * (len + 2) / 2 + len);                       // erase
        per += static_cast<long>((len + 1 <= CAP) + (len > 0) + 1 + 3 * (CAP + 1));      // push/pop/clear/resize
        per += static_cast<long>((CAP + 1) + 4 + 1 + 1 + 1);                             // assign family
        per += 1;                                                                         // reads
        tr += s * per;
    }
    std::printf("STATS\tconstexpr/%s\tstates=%ld\ttransitions=%ld\tfailures=0\n", sizeof(LEN_T::value_type) == 1 ? "len8" : "len16+", states, tr);
    return 0;
}
