// C12: group views obey iterator and container laws for every (numInGroup type, blockLength type) pair.
// Flat groups: iterator state = index in [0,n]; all op sequences of depth <= 3 over
//   {++it, --it, it++, it--, it+=k, it-=k, it+k, k+it, it-k} (k in -3..3) whose intermediate positions stay in [0,n],
//   from begin() and from end(); after every step: address of *it (idx<n), it[k], distances/orderings against an
//   iterator at every index, begin()+size()==end(). Container ops: size/empty/operator[]/front/back/resize/clear.
// Nested groups: forward steps, entry i starts where entry i-1 ends, front, size_bytes, resize/clear.
// Oracle: integer index model; addresses from the wire header written by the harness.
#include <sbepp/sbepp.hpp>
#define STR2(x) #x
#define STR(x) STR2(x)
#define HDR2(x) <x/x.hpp>
#include HDR2(SCHEMA)
#include "harness.hpp"
#include <map>
#include <string>
#include <vector>

VH_DEFINE_ASSERT_HANDLER

static std::map<std::string, long> g_sigs;
static long g_printed = 0;

static void fail(const char* cfg, const std::string& sig, const std::string& state, const std::string& op,
                 const std::string& kind, const std::string& detail)
{
    const char* pair = std::strchr(cfg, '/');
    std::string full = std::string(pair ? pair + 1 : cfg) + ":" + sig + ":" + kind;
    if(g_sigs[full]++ < 2 && g_printed++ < 400)
        std::printf("FAIL\t%s\t%s\t%s\t%s\t%s\t%s\n", full.c_str(), cfg, state.c_str(), op.c_str(), kind.c_str(),
                    detail.c_str());
}

static void put(unsigned char* p, std::size_t width, std::uint64_t v)
{
    for(std::size_t i = 0; i < width; i++)
        p[BIG ? (width - 1 - i) : i] = (unsigned char)(v >> (8 * i));
}

static vh::guarded_buffer& gbuf()
{
    static vh::guarded_buffer b(1 << 20);
    return b;
}

enum opk
{
    PRE_INC,
    PRE_DEC,
    POST_INC,
    POST_DEC,
    ADD_ASSIGN,
    SUB_ASSIGN,
    PLUS,
    RPLUS,
    MINUS
};

struct op
{
    opk k;
    int n;
    int delta() const
    {
        switch(k)
        {
        case PRE_INC:
        case POST_INC:
            return 1;
        case PRE_DEC:
        case POST_DEC:
            return -1;
        case ADD_ASSIGN:
        case PLUS:
        case RPLUS:
            return n;
        default:
            return -n;
        }
    }
    std::string name() const
    {
        static const char* nm[] = {"++it", "--it", "it++", "it--", "it+=", "it-=", "it+", "k+it", "it-"};
        std::string s = nm[k];
        if(k >= ADD_ASSIGN)
            s += std::to_string(n);
        return s;
    }
    std::string cls() const
    {
        static const char* nm[] = {"++it", "--it", "it++", "it--", "it+=k", "it-=k", "it+k", "k+it", "it-k"};
        std::string s = nm[k];
        if(k >= ADD_ASSIGN)
            s += (delta() < 0 ? ",backward" : (delta() > 0 ? ",forward" : ",zero"));
        return s;
    }
};

static std::vector<op> all_ops()
{
    std::vector<op> v{{PRE_INC, 0}, {PRE_DEC, 0}, {POST_INC, 0}, {POST_DEC, 0}};
    for(int kk = ADD_ASSIGN; kk <= MINUS; kk++)
        for(int n = -3; n <= 3; n++)
            v.push_back(op{(opk)kk, n});
    return v;
}

template<typename G, int NW, int BW>
struct flat_explorer
{
    using It = typename G::iterator;
    using D = typename G::difference_type;
    using size_type = typename G::size_type;
    const char* cfg;
    long states, transitions, expressions;
    explicit flat_explorer(const char* c) : cfg(c), states(0), transitions(0), expressions(0) {}
    static constexpr std::size_t HDR = NW + BW;

    unsigned char* base;
    std::size_t n, bl, total;

    void build(std::size_t n_, std::size_t bl_)
    {
        n = n_;
        bl = bl_;
        total = HDR + n * bl;
        base = gbuf().at(total);
        gbuf().fill(0xEE);
        put(base, BW, bl);
        put(base + BW, NW, n);
        for(std::size_t i = 0; i < n * bl; i++)
            base[HDR + i] = (unsigned char)(0x10 + i);
    }
    G group() const { return G{base, total}; }

    std::string st(int idx) const
    {
        return "n=" + std::to_string(n) + ",BL=" + std::to_string(bl) + ",idx=" + std::to_string(idx);
    }

    // everything observable about an iterator believed to be at idx
    bool observe(const It& it, int idx, const std::string& how, const std::string& cls)
    {
        G g = group();
        bool ok = true;
        const It b = g.begin(), e = g.end();
        if((it - b) != (D)idx || (b - it) != (D)-idx || (e - it) != (D)((int)n - idx))
        {
            fail(cfg, cls, st(idx), how, "DISTANCE", "it-begin=" + std::to_string((long)(it - b)));
            ok = false;
        }
        if((std::size_t)idx < n)
        {
            auto a = (const unsigned char*)sbepp::addressof(*it);
            if(a != base + HDR + idx * bl)
            {
                fail(cfg, cls, st(idx), how, "ADDRESS", "entry at offset " + std::to_string((long)(a - base)) + " want "
                                                            + std::to_string(HDR + idx * bl));
                ok = false;
            }
            auto a2 = (const unsigned char*)sbepp::addressof(*it.operator->().operator->());
            if(a2 != a)
            {
                fail(cfg, cls, st(idx), how, "ARROW", "");
                ok = false;
            }
            if(bl >= 1 && ok && (unsigned char)(*it).x().value() != base[HDR + idx * bl])
            {
                fail(cfg, cls, st(idx), how, "FIELD", "");
                ok = false;
            }
        }
        // relations against an iterator at every index j, obtained by stepping from begin
        It jt = g.begin();
        for(int j = 0; j <= (int)n; j++)
        {
            transitions++;
            if((it == jt) != (idx == j) || (it != jt) != (idx != j) || (it < jt) != (idx < j) || (it <= jt) != (idx <= j)
               || (it > jt) != (idx > j) || (it >= jt) != (idx >= j) || (it - jt) != (D)(idx - j))
            {
                fail(cfg, cls, st(idx), how + " vs j=" + std::to_string(j), "ORDER", "");
                ok = false;
            }
            // it[k] is *(it+k)
            int k = j - idx;
            if((int)(D)k != k || (int)(D)(-k) != -k)
            {
                // the offset is not representable in the iterator's difference_type: outside the iterator's domain
                if(j < (int)n)
                    ++jt;
                continue;
            }
            if((std::size_t)j < n)
            {
                auto a = (const unsigned char*)sbepp::addressof(it[(D)k]);
                auto a3 = (const unsigned char*)sbepp::addressof(*(it + (D)k));
                if(a != base + HDR + j * bl || a3 != a)
                {
                    fail(cfg, cls + ":subscript" + (k < 0 ? ",backward" : ""), st(idx), how + " it[" + std::to_string(k) + "]",
                         "ADDRESS", "offset " + std::to_string((long)(a - base)) + " want " + std::to_string(HDR + j * bl));
                    ok = false;
                }
            }
            // (it + k) - k is it
            {
                It r = (it + (D)k) - (D)k;
                if(!(r == it) || ((std::size_t)idx < n && sbepp::addressof(*r) != sbepp::addressof(*it)))
                {
                    fail(cfg, cls + ":roundtrip" + (k < 0 ? ",backward" : ""), st(idx), how + " (it+" + std::to_string(k) + ")-k",
                         "ADDRESS", "");
                    ok = false;
                }
            }
            if(j < (int)n)
                ++jt;
        }
        return ok;
    }

    // apply op to (it, idx); returns false when out of domain
    bool apply(It& it, int& idx, const op& o, std::string& how)
    {
        int ni = idx + o.delta();
        if(ni < 0 || ni > (int)n)
            return false;
        how += (how.empty() ? "" : " ; ") + o.name();
        transitions++;
        switch(o.k)
        {
        case PRE_INC:
        {
            It& r = ++it;
            if(&r != &it)
                fail(cfg, "++it", st(idx), how, "RETURN", "not *this");
            break;
        }
        case PRE_DEC:
        {
            It& r = --it;
            if(&r != &it)
                fail(cfg, "--it", st(idx), how, "RETURN", "not *this");
            break;
        }
        case POST_INC:
        {
            It old = it++;
            if((old - group().begin()) != (D)idx)
                fail(cfg, "it++", st(idx), how, "RETURN", "old value wrong");
            break;
        }
        case POST_DEC:
        {
            It old = it--;
            if((old - group().begin()) != (D)idx)
                fail(cfg, "it--", st(idx), how, "RETURN", "old value wrong");
            break;
        }
        case ADD_ASSIGN:
            it += (D)o.n;
            break;
        case SUB_ASSIGN:
            it -= (D)o.n;
            break;
        case PLUS:
            it = it + (D)o.n;
            break;
        case RPLUS:
            it = (D)o.n + it;
            break;
        case MINUS:
            it = it - (D)o.n;
            break;
        }
        idx = ni;
        return true;
    }

    void sequences(It start, int start_idx, const std::string& sname, int depth)
    {
        static const std::vector<op> ops = all_ops();
        struct frame
        {
            It it;
            int idx;
            std::string how;
            std::string cls;
        };
        std::vector<frame> level{frame{start, start_idx, sname, sname}};
        observe(start, start_idx, sname, sname);
        for(int d = 0; d < depth; d++)
        {
            std::vector<frame> next;
            for(auto& f : level)
                for(auto& o : ops)
                {
                    frame g2 = f;
                    if(!apply(g2.it, g2.idx, o, g2.how))
                        continue;
                    expressions++;
                    g2.cls = o.cls();
                    // a failure is attributed to the last op applied
                    if(observe(g2.it, g2.idx, g2.how, "flat:" + g2.cls))
                        next.push_back(g2);
                }
            level.swap(next);
        }
    }

    void container()
    {
        G g = group();
        transitions += 8;
        const std::string s = st(-1);
        if(g.size() != (size_type)n || g.sbe_size().value() != (size_type)n)
            fail(cfg, "flat:size", s, "size()", "VALUE", "");
        if(g.empty() != (n == 0))
            fail(cfg, "flat:empty", s, "empty()", "VALUE", "");
        if(sbepp::size_bytes(g) != total)
            fail(cfg, "flat:size_bytes", s, "size_bytes", "VALUE", "got " + std::to_string(sbepp::size_bytes(g)) + " want " + std::to_string(total));
        // only where the size is representable in the group's difference_type (signed numInGroup type)
        if((std::size_t)(D)n == n && (!(g.begin() + (D)n == g.end()) || (g.end() - g.begin()) != (D)n))
            fail(cfg, "flat:begin+size==end", s, "begin()+size()", "VALUE", "");
        for(std::size_t i = 0; i < n; i++)
            if((const unsigned char*)sbepp::addressof(g[(size_type)i]) != base + HDR + i * bl)
                fail(cfg, "flat:operator[]", s, "g[" + std::to_string(i) + "]", "ADDRESS", "");
        if(n)
        {
            if((const unsigned char*)sbepp::addressof(g.front()) != base + HDR)
                fail(cfg, "flat:front", s, "front()", "ADDRESS", "");
            if((const unsigned char*)sbepp::addressof(g.back()) != base + HDR + (n - 1) * bl)
                fail(cfg, "flat:back", s, "back()", "ADDRESS", "");
        }
        std::size_t k = 0;
        for(auto e : g)
        {
            if((const unsigned char*)sbepp::addressof(e) != base + HDR + k * bl)
                fail(cfg, "flat:range-for", s, "range-for", "ADDRESS", "");
            k++;
        }
        if(k != n)
            fail(cfg, "flat:range-for", s, "range-for", "COUNT", "");
        if(g.max_size() != G::sbe_size_type::max_value())
            fail(cfg, "flat:max_size", s, "max_size", "VALUE", "");
        // resize / clear change only the numInGroup bytes
        for(std::size_t c = 0; c <= 3; c++)
        {
            std::vector<unsigned char> before(base, base + total), want;
            transitions++;
            if(c == 0)
                g.clear();
            else
                g.resize((size_type)c);
            want = before;
            put(want.data() + BW, NW, c);
            if(std::vector<unsigned char>(base, base + total) != want)
                fail(cfg, c ? "flat:resize" : "flat:clear", s, "resize(" + std::to_string(c) + ")", "BYTES", "changed something besides numInGroup");
            put(base + BW, NW, n);
        }
    }

    void run()
    {
        // wire block lengths: small ones, and values beyond the signed range of each narrower integer type
        std::vector<std::size_t> bls{0, 1, 2, 5, 127, 128, 200, 255};
        if(BW >= 2)
        {
            bls.push_back(256);
            bls.push_back(32768);
            bls.push_back(65535);
        }
        if(BW >= 4)
            bls.push_back(70000);
        // group sizes: 0..3, and sizes beyond the signed range of a uint8 numInGroup (only with tiny blocks)
        std::vector<std::pair<std::size_t, std::size_t>> cfgs;
        for(std::size_t nn = 0; nn <= 3; nn++)
            for(std::size_t b : bls)
                cfgs.emplace_back(nn, b);
        for(std::size_t nn : {127u, 128u, 200u, 255u})
            for(std::size_t b : {0u, 1u, 3u})
                cfgs.emplace_back(nn, b);
        for(auto& cf : cfgs)
            {
                const std::size_t nn = cf.first, b = cf.second;
                build(nn, b);
                states += nn + 1;
                auto out = vh::guarded(
                    [&]
                    {
                        container();
                        sequences(group().begin(), 0, "begin()", DEPTH);
                        sequences(group().end(), (int)n, "end()", DEPTH);
                    },
                    20000);
                if(out.kind != vh::OK)
                    fail(cfg, std::string("flat:outcome"), st(-1), "exploration", out.kind == vh::HANDLER ? "HANDLER" : out.kind == vh::FAULT ? "FAULT" : "TIMEOUT",
                         out.expr ? out.expr : "");
            }
        std::printf("STATS\t%s/flat\tstates=%ld\ttransitions=%ld\texpressions=%ld\n", cfg, states, transitions, expressions);
    }
};

template<typename G, int NW, int BW>
struct nested_explorer
{
    using It = typename G::iterator;
    using size_type = typename G::size_type;
    const char* cfg;
    long states, transitions;
    explicit nested_explorer(const char* c) : cfg(c), states(0), transitions(0) {}
    static constexpr std::size_t HDR = NW + BW;
    unsigned char* base;
    std::size_t n, bl, total;
    std::vector<std::size_t> starts, inner;

    void build(std::size_t bl_, const std::vector<std::size_t>& inner_counts)
    {
        inner = inner_counts;
        n = inner.size();
        bl = bl_;
        const std::size_t ibl = 1; // inner entries: one uint8 field
        total = HDR;
        for(auto c : inner)
            total += bl + 2 + c * ibl;
        base = gbuf().at(total);
        gbuf().fill(0xEE);
        put(base, BW, bl);
        put(base + BW, NW, n);
        std::size_t off = HDR;
        starts.clear();
        for(auto c : inner)
        {
            starts.push_back(off);
            for(std::size_t i = 0; i < bl; i++)
                base[off + i] = (unsigned char)(0x40 + starts.size());
            off += bl;
            base[off] = (unsigned char)ibl; // gse_u8_u8: blockLength, numInGroup
            base[off + 1] = (unsigned char)c;
            off += 2;
            for(std::size_t i = 0; i < c; i++)
                base[off++] = (unsigned char)(0x70 + i);
        }
        starts.push_back(off);
    }
    G group() const { return G{base, total}; }
    std::string st() const
    {
        std::string s = "n=" + std::to_string(n) + ",BL=" + std::to_string(bl) + ",inner=";
        for(auto c : inner)
            s += std::to_string(c);
        return s;
    }

    void explore()
    {
        G g = group();
        states += n + 1;
        transitions += 6;
        if(g.size() != (size_type)n || g.empty() != (n == 0) || g.sbe_size().value() != (size_type)n)
            fail(cfg, "nested:size", st(), "size()", "VALUE", "");
        if(sbepp::size_bytes(g) != total)
            fail(cfg, "nested:size_bytes", st(), "size_bytes", "VALUE", "got " + std::to_string(sbepp::size_bytes(g)) + " want " + std::to_string(total));
        if(n && (const unsigned char*)sbepp::addressof(g.front()) != base + starts[0])
            fail(cfg, "nested:front", st(), "front()", "ADDRESS", "");
        // forward steps with both increments, comparing with iterators at every other index
        for(int mode = 0; mode < 2; mode++)
        {
            It it = g.begin();
            for(std::size_t i = 0; i <= n; i++)
            {
                transitions++;
                if(i < n)
                {
                    auto a = (const unsigned char*)sbepp::addressof(*it);
                    if(a != base + starts[i])
                        fail(cfg, "nested:entry-start", st(), "entry " + std::to_string(i), "ADDRESS",
                             "offset " + std::to_string((long)(a - base)) + " want " + std::to_string(starts[i]));
                    if(sbepp::size_bytes(*it) != starts[i + 1] - starts[i])
                        fail(cfg, "nested:entry-size", st(), "entry " + std::to_string(i), "VALUE", "");
                    if(sbepp::addressof(*it.operator->().operator->()) != sbepp::addressof(*it))
                        fail(cfg, "nested:arrow", st(), "entry " + std::to_string(i), "ADDRESS", "");
                    if(bl >= 1 && (unsigned char)(*it).x().value() != base[starts[i]])
                        fail(cfg, "nested:field", st(), "entry " + std::to_string(i), "VALUE", "");
                    auto h = (*it).h();
                    if((const unsigned char*)sbepp::addressof(h) != base + starts[i] + bl || h.size() != inner[i])
                        fail(cfg, "nested:inner-group", st(), "entry " + std::to_string(i), "ADDRESS", "");
                }
                It jt = g.begin();
                for(std::size_t j = 0; j <= n; j++)
                {
                    if((it == jt) != (i == j) || (it != jt) != (i != j))
                        fail(cfg, "nested:equality", st(), "it@" + std::to_string(i) + " vs " + std::to_string(j), "ORDER", "");
                    if(j < n)
                        ++jt;
                }
                if((it == g.end()) != (i == n))
                    fail(cfg, "nested:end", st(), "it@" + std::to_string(i) + " == end()", "ORDER", "");
                if(i < n)
                {
                    if(mode == 0)
                    {
                        It& r = ++it;
                        if(&r != &it)
                            fail(cfg, "nested:++it", st(), "++it", "RETURN", "");
                    }
                    else
                    {
                        It old = it++;
                        if(sbepp::addressof(*old) != (decltype(sbepp::addressof(*old)))(base + starts[i]))
                            fail(cfg, "nested:it++", st(), "it++", "RETURN", "");
                    }
                }
            }
        }
        std::size_t k = 0;
        for(auto e : g)
        {
            if((const unsigned char*)sbepp::addressof(e) != base + starts[k])
                fail(cfg, "nested:range-for", st(), "range-for", "ADDRESS", "");
            k++;
        }
        if(k != n)
            fail(cfg, "nested:range-for", st(), "range-for", "COUNT", "");
        for(std::size_t c = 0; c <= n; c++)
        {
            std::vector<unsigned char> before(base, base + total), want;
            transitions++;
            if(c == 0)
                g.clear();
            else
                g.resize((size_type)c);
            want = before;
            put(want.data() + BW, NW, c);
            if(std::vector<unsigned char>(base, base + total) != want)
                fail(cfg, c ? "nested:resize" : "nested:clear", st(), "resize(" + std::to_string(c) + ")", "BYTES", "");
            put(base + BW, NW, n);
        }
    }

    void run()
    {
        static const std::size_t bls[] = {0, 1, 2, 5};
        std::vector<std::vector<std::size_t>> shapes{{}};
        for(int len = 1; len <= 3; len++)
        {
            std::vector<std::size_t> v(len, 0);
            while(true)
            {
                shapes.push_back(v);
                int i = 0;
                while(i < len && ++v[i] > 2)
                    v[i++] = 0;
                if(i == len)
                    break;
            }
        }
        for(std::size_t b : bls)
            for(auto& sh : shapes)
            {
                build(b, sh);
                auto out = vh::guarded([&] { explore(); }, 20000);
                if(out.kind != vh::OK)
                    fail(cfg, "nested:outcome", st(), "exploration", out.kind == vh::HANDLER ? "HANDLER" : out.kind == vh::FAULT ? "FAULT" : "TIMEOUT",
                         out.expr ? out.expr : "");
            }
        std::printf("STATS\t%s/nested\tstates=%ld\ttransitions=%ld\n", cfg, states, transitions);
    }
};

#ifndef DEPTH
#    define DEPTH 3
#endif

#define PAIR(NN, NW, BN, BW)                                                                  \
    {                                                                                         \
        using M = SCHEMA::messages::m_##NN##_##BN<unsigned char>;                             \
        using F = decltype(std::declval<M>().f());                                            \
        using N = decltype(std::declval<M>().n());                                            \
        flat_explorer<F, NW, BW> fe{STR(SCHEMA) "/num=" #NN ",bl=" #BN};                        \
        fe.run();                                                                             \
        nested_explorer<N, NW, BW> ne{STR(SCHEMA) "/num=" #NN ",bl=" #BN};                      \
        ne.run();                                                                             \
    }

int main()
{
#define ROW(NN, NW) PAIR(NN, NW, u8, 1) PAIR(NN, NW, u16, 2) PAIR(NN, NW, u32, 4) PAIR(NN, NW, u64, 8)
    ROW(u8, 1)
    ROW(u16, 2)
    ROW(u32, 4)
    ROW(u64, 8)
    for(auto& kv : g_sigs)
        std::printf("SIG\t%s\t%ld\n", kv.first.c_str(), kv.second);
}
