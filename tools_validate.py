#!/opt/veriftools/pyvenv/bin/python
"""validate MANIFEST.json and evidence/*.json against the given schemas (uses the tooling venv's jsonschema)"""
import glob, json, sys, jsonschema
ok = True
m = json.load(open('/verif/MANIFEST.json'))
jsonschema.validate(m, json.load(open('/root/.vp/MANIFEST.schema.json')))
es = json.load(open('/root/.vp/EVIDENCE.schema.json'))
for c in m['checks']:
    f = c['evidence_file']
    try:
        e = json.load(open(f))
        jsonschema.validate(e, es)
        assert e['level'] == c['level_claimed']['category'], "level mismatch"
        print("ok", f, e['tier'], e['wall_s'])
    except Exception as ex:
        ok = False
        print("BAD", f, str(ex)[:300])
props = [json.loads(l)['id'] for l in open('/verif/properties.jsonl')]
claimed = {c['property_id'] for c in m['checks']}
na = {x['property_id'] for x in m.get('not_applicable', [])}
assert claimed | na == set(props) and not (claimed & na), (claimed, na)
sys.exit(0 if ok else 1)
